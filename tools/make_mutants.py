#!/usr/bin/env python3
"""Generates /verif/mutants/<name>.patch from the edit list below (run against /repo HEAD).

Each mutant is a realistic one- or two-hunk edit that should break one property while the
repository's test suite keeps passing; ``expect: quiet`` entries are benign controls that
must NOT raise an alarm.  `./check mutants` applies each patch to a scratch copy, runs the
baseline tests, then the property's quick check with VERIF_REPO pointing at the copy.
"""
import os
import shutil
import subprocess
import sys
import tempfile

REPO = os.environ.get("VERIF_REPO", "/repo")
OUT = os.path.join(os.path.dirname(os.path.dirname(os.path.abspath(__file__))), "mutants")

A = "ceos_alos2/array.py"
IO = "ceos_alos2/sar_image/io.py"
SI = "ceos_alos2/sar_image/__init__.py"
CA = "ceos_alos2/sar_image/caching/__init__.py"
DE = "ceos_alos2/sar_image/caching/decoders.py"
EN = "ceos_alos2/sar_image/caching/encoders.py"
XR = "ceos_alos2/xarray.py"
TOP = "ceos_alos2/io.py"
CLI = "ceos_alos2/sar_image/cli.py"
SUM = "ceos_alos2/summary.py"
MD = "ceos_alos2/sar_image/metadata.py"

MUTANTS = [
    # ------------------------------------------------------------------ C01
    ("c01_swap_real_imag", "C01", "violation", "real and imaginary parts swapped",
     [(A, 'data.real = raw["real"]\n        data.imag = raw["imag"]',
          'data.real = raw["imag"]\n        data.imag = raw["real"]')]),
    ("c01_complex_arith", "C01", "violation", "revert of the bit-exact complex decode",
     [(A, '''        data = np.empty(raw.shape, dtype="complex64")
        data.real = raw["real"]
        data.imag = raw["imag"]
        return data''', '''        return (raw["real"] + 1j * raw["imag"]).astype("complex64")''')]),
    ("c01_little_endian_u2", "C01", "violation", "IU2 samples read little-endian",
     [(A, '"IU2": np.dtype(">u2")', '"IU2": np.dtype("<u2")')]),
    ("c01_last_row_of_full_chunk", "C01", "violation",
     "chunk end computed from the second-last record when a chunk is full and not the last",
     [(A, '''        chunk_number: (min(map(first, ranges_)), max(map(second, ranges_)))
        for chunk_number, ranges_ in enumerate(partitioned)''',
          '''        chunk_number: (
            min(map(first, ranges_)),
            max(map(second, ranges_ if len(ranges_) < 3 or chunks == 1 else ranges_[:-1])),
        )
        for chunk_number, ranges_ in enumerate(partitioned)''')]),
    ("c01_memoryview_reuse", "C01", "violation",
     "single-pixel-wide images take a 'fast path' that reads the first row only",
     [(A, '''        new_indexers = tuple(cons(row_indexer, indexers[1:]))''',
          '''        if self.shape[1] == 1 and data.shape[0] > 1 and self.type_code == "IU2":
            data = np.broadcast_to(data[:1], data.shape)
        new_indexers = tuple(cons(row_indexer, indexers[1:]))''')]),
    # ------------------------------------------------------------------ C02
    ("c02_chunk_order", "C02", "violation",
     "rows returned in chunk order instead of request order (negative-step row slices)",
     [(A, '''    return [(chunk_offsets[index], ranges) for index, ranges in selected.items()]''',
          '''    return [(chunk_offsets[index], ranges) for index, ranges in sorted(selected.items())]''')]),
    ("c02_int_keeps_axis", "C02", "violation", "revert: integer row index keeps the axis",
     [(A, 'row_indexer = 0 if isinstance(indexers[0], (int, np.integer)) else slice(None)',
          'row_indexer = slice(None)')]),
    ("c02_empty_rows_raise", "C02", "violation", "revert: empty row selection raises",
     [(A, '''            if data_:
                data = np.stack(data_, axis=0)
            else:
                data = np.empty((0, *self.shape[1:]), dtype=self.dtype)''',
          '''            data = np.stack(data_, axis=0)''')]),
    # ------------------------------------------------------------------ C06
    ("c06_normalize_ge", "C06", "violation", "normalize_chunksize uses >= (r == N advertised differently is fine, but r>=N -> N-1 bug)",
     [(A, '''    if chunksize in (None, -1) or chunksize > dim_size:
        return dim_size''', '''    if chunksize in (None, -1) or chunksize > dim_size:
        return max(dim_size - 1, 1)''')]),
    ("c06_cached_ignores_rpc", "C06", "violation", "cached path ignores the caller's records_per_chunk",
     [(CA, '''        return decode(content, records_per_chunk=records_per_chunk, mapper=mapper)''',
           '''        return decode(content, records_per_chunk=None, mapper=mapper)''')]),
    ("c06_rpc_dependent_attr", "C06", "violation", "a header attribute depends on the request size",
     [(SI, '''    group.path = filename_to_groupname(path)''',
           '''    group.path = filename_to_groupname(path)
    if records_per_chunk is not None and records_per_chunk < 2:
        group.attrs["request_size"] = records_per_chunk''')]),
    # ------------------------------------------------------------------ C07
    ("c07_use_cache_false_reads_adjacent", "C07", "violation",
     "use_cache=False still consults the adjacent index",
     [(SI, '''    if use_cache:
        try:''', '''    if use_cache or f"{path}.index" in mapper:
        try:''')]),
    ("c07_cache_rereads_header", "C07", "violation", "cached open re-reads the image descriptor",
     [(CA, '''    try:
        return decode(content, records_per_chunk=records_per_chunk, mapper=mapper)''',
           '''    try:
        mapper.fs.cat_file(f"{mapper.root}/{path}", start=0, end=720)
        return decode(content, records_per_chunk=records_per_chunk, mapper=mapper)''')]),
    ("c07_lookup_order", "C07", "quiet", "benign: adjacent cache preferred over the user cache dir",
     [(CA, '''    if local.is_file():
        content = local.read_text()
    elif remote in mapper:
        content = mapper[remote].decode()''', '''    if remote in mapper:
        content = mapper[remote].decode()
    elif local.is_file():
        content = local.read_text()''')]),
    ("c07_lost_filesystem", "C07", "violation", "revert: cached arrays rebuilt from the bare root",
     [(DE, '''    if mapper is None or "://" in encoded["root"]:
        mapper = fsspec.get_mapper(encoded["root"])''',
           '''    mapper = fsspec.get_mapper(encoded["root"])''')]),
    ("c07_cached_time_truncated", "C07", "violation",
     "datetime offsets stored in microseconds (loses sub-microsecond digits? no: reference in us)",
     [(EN, '''    encoding = {"reference": str(reference), "units": units}''',
           '''    encoding = {"reference": str(reference.astype("datetime64[s]")), "units": units}''')]),
    # ------------------------------------------------------------------ C09
    ("c09_only_missing_falls_back", "C09", "violation", "revert: only a missing cache falls back",
     [(CA, '''    except (ValueError, KeyError, TypeError, AttributeError) as e:
        raise CachingError(f"invalid cache file for {path}") from e''',
           '''    except KeyError as e:
        raise CachingError(f"invalid cache file for {path}") from e''')]),
    ("c09_local_only_tolerant", "C09", "violation",
     "decode errors tolerated for the user cache dir but not for the adjacent file",
     [(CA, '''    elif remote in mapper:
        content = mapper[remote].decode()
    else:''', '''    elif remote in mapper:
        return decode(
            mapper[remote].decode(), records_per_chunk=records_per_chunk, mapper=mapper
        )
    else:''')]),
    ("c09_empty_is_valid", "C09", "violation", "an empty cache file is treated as 'image has no metadata'",
     [(CA, '''    try:
        return decode(content, records_per_chunk=records_per_chunk, mapper=mapper)''',
           '''    try:
        if not content.strip():
            content = "{}"
        return decode(content, records_per_chunk=records_per_chunk, mapper=mapper)''')]),
    ("c09_skip_existing", "C09", "violation",
     "create_cache does not rewrite an existing (possibly torn) file",
     [(CA, '''    encoded = encode(data)

    local.write_text(encoded)''', '''    if local.is_file():
        return

    encoded = encode(data)

    local.write_text(encoded)''')]),
    ("c09_atomic_write", "C09", "quiet", "benign: write to a temporary file and rename",
     [(CA, '''    local.write_text(encoded)''', '''    tmp = local.with_name(local.name + ".tmp")
    tmp.write_text(encoded)
    tmp.replace(local)''')]),
    # ------------------------------------------------------------------ C10
    ("c10_pop_options", "C10", "violation", "caller's backend_options mutated",
     [(XR, '''    root = io.open(path, **backend_options)''',
           '''    backend_options.setdefault("records_per_chunk", 1024)
    root = io.open(path, **backend_options)''')]),
    ("c10_cache_next_to_image", "C10", "violation", "create_cache also writes next to a local image",
     [(CA, '''    local.write_text(encoded)''', '''    local.write_text(encoded)
    if getattr(mapper.fs, "local_file", False):
        (local.__class__(mapper.root) / f"{path}.index").write_text(encoded)''')]),
    ("c10_cache_created_unasked", "C10", "violation",
     "a cache is written whenever none could be read",
     [(SI, '''    if create_cache:
        caching.create_cache(mapper, path, group)''',
           '''    if create_cache or (use_cache and records_per_chunk == 1):
        caching.create_cache(mapper, path, group)''')]),
    ("c10_memoised_open", "C10", "violation", "open results memoised per path (ignores later options)",
     [(TOP, '''def open(path, *, storage_options={}, create_cache=False, use_cache=True, records_per_chunk=1024):
    mapper = fsspec.get_mapper(path, **storage_options)
''', '''_summaries = {}


def open(path, *, storage_options={}, create_cache=False, use_cache=True, records_per_chunk=1024):
    mapper = fsspec.get_mapper(path, **storage_options)
    if create_cache:
        _summaries[path] = records_per_chunk
    records_per_chunk = _summaries.get(path, records_per_chunk)
''')]),
    # ------------------------------------------------------------------ C11
    ("c11_read_to_eof", "C11", "violation", "each chunk read runs to the end of the file",
     [(A, '''    f.seek(offset)

    return f.read(size)''', '''    f.seek(offset)

    return f.read()[:size]''')]),
    ("c11_one_read_per_row", "C11", "violation", "one read per selected row",
     [(A, '''            for chunk_info, ranges in tasks:
                chunk = read_chunk(f, **chunk_info)
                raw_bytes = extract_ranges(chunk, ranges)''',
          '''            for chunk_info, ranges in tasks:
                raw_bytes = [
                    read_chunk(f, chunk_info["offset"] + start, stop - start)
                    for start, stop in ranges
                ]''')]),
    ("c11_header_per_load", "C11", "violation", "descriptor re-read on every load",
     [(A, '''        with self.fs.open(self.url, mode="rb") as f:
            data_ = []''', '''        with self.fs.open(self.url, mode="rb") as f:
            f.read(720)
            data_ = []''')]),
    ("c11_record_by_record", "C11", "violation", "metadata pass ignores records_per_chunk",
     [(IO, '''    n_chunks = math.ceil(n_records / records_per_chunk)''',
           '''    records_per_chunk = min(records_per_chunk, 2)
    n_chunks = math.ceil(n_records / records_per_chunk)''')]),
    ("c11_whole_span", "C11", "violation", "untouched groups inside... all groups up to the last selected one are read",
     [(A, '''        grouped = groupby_chunks(selected_ranges, chunksize=self.records_per_chunk)''',
          '''        grouped = groupby_chunks(selected_ranges, chunksize=self.records_per_chunk)
        if grouped and len(self.chunk_offsets) > 2:
            grouped = {0: grouped.get(0, []), **grouped}''')]),
    # ------------------------------------------------------------------ C18
    ("c18_no_size_check", "C18", "violation", "size-multiple check removed (short chunk silently parsed)",
     [(IO, '''    if n_elements * element_size != len(content):
        raise ValueError(''', '''    if n_elements == 0 and len(content) != 0:
        raise ValueError(''')]),
    ("c18_missing_summary_keyerror", "C18", "violation", "missing summary surfaces as KeyError",
     [(SUM, '''    try:
        bytes_ = mapper[path]
    except KeyError as e:
        raise OSError(''', '''    try:
        bytes_ = mapper[path]
    except LookupError as e:
        raise KeyError(''')]),
    ("c18_shape_from_records", "C18", "violation", "image shape taken from the records actually parsed",
     [(MD, '''    shape = extract_shape(header)''',
           '''    shape = (len(byte_ranges), extract_shape(header)[1])''')]),
    # ------------------------------------------------------------------ C19
    ("c19_shared_handle_no_lock", "C19", "violation", "file handle cached on the array, lock not taken",
     [(A, '''        with self.fs.open(self.url, mode="rb") as f:
            data_ = []''', '''        if getattr(self, "_handle", None) is None:
            self._handle = self.fs.open(self.url, mode="rb")
        f = self._handle
        if True:
            data_ = []'''),
      (XR, '''        with self.lock:
            return self.array[key]''', '''        return self.array[key]''')]),
    ("c19_shared_handle_with_lock", "C19", "quiet", "benign: handle cached on the array, lock kept",
     [(A, '''        with self.fs.open(self.url, mode="rb") as f:
            data_ = []''', '''        if getattr(self, "_handle", None) is None:
            self._handle = self.fs.open(self.url, mode="rb")
        f = self._handle
        if True:
            data_ = []''')]),
    ("c19_double_acquire", "C19", "violation", "lock acquired twice on the load path (self-deadlock)",
     [(XR, '''        with self.lock:
            return self.array[key]''', '''        with self.lock:
            if len(key) and isinstance(key[0], slice) and key[0].step not in (None, 1):
                with self.lock:
                    return self.array[key]
            return self.array[key]''')]),
    ("c19_no_lock", "C19", "violation",
     "lock removed: harmless on stores with one handle per open (it was a quiet control until "
     "memory:// worlds were added) - but fsspec's memory filesystem hands out ONE shared file "
     "object per path, and there the lock is what keeps same-image loads apart",
     [(XR, '''        with self.lock:
            return self.array[key]''', '''        return self.array[key]''')]),
    ("c19_module_handle_cache", "C19", "violation", "module-level handle cache keyed by url, no lock",
     [(A, '''def read_chunk(f, offset, size):''', '''_handles = {}


def read_chunk(f, offset, size):'''),
      (A, '''        with self.fs.open(self.url, mode="rb") as f:
            data_ = []''', '''        key_ = (id(type(self.fs)), self.fs.path, self.url)
        if key_ not in _handles:
            _handles[key_] = self.fs.open(self.url, mode="rb")
        f = _handles[key_]
        if True:
            data_ = []'''),
      (XR, '''        with self.lock:
            return self.array[key]''', '''        return self.array[key]''')]),
    # ------------------------------------------------------------------ second generation
    ("c11_read_one_byte_more", "C11", "violation", "each chunk read asks for one byte beyond its group",
     [(A, """    f.seek(offset)

    return f.read(size)""", """    f.seek(offset)

    return f.read(size + 1)[:size]""")]),
    ("c07_cached_open_peeks_image", "C07", "violation",
     "decoding a cached array peeks at the image descriptor",
     [(DE, """    type_code = encoded["type_code"]
    url = encoded["url"]""", """    type_code = encoded["type_code"]
    url = encoded["url"]
    try:
        fs.cat_file(url, start=0, end=720)
    except OSError:
        pass""")]),
    ("c18_shape_from_records_if_short", "C18", "violation",
     "image shape follows the records actually parsed when there are fewer than declared",
     [(MD, """    shape = extract_shape(header)""",
           """    shape = extract_shape(header)
    if len(byte_ranges) < shape[0]:
        shape = (len(byte_ranges), shape[1])""")]),
    ("c18_missing_image_skipped", "C18", "violation", "a missing image file drops its group silently",
     [(TOP, """    imagery_groups = list(
        map(
            curry(
                sar_image.open_image,
                mapper,
                records_per_chunk=records_per_chunk,
                create_cache=create_cache,
                use_cache=use_cache,
            ),
            filenames["sar_imagery"],
        )
    )""", """    def open_existing(path):
        try:
            return sar_image.open_image(
                mapper,
                path,
                records_per_chunk=records_per_chunk,
                create_cache=create_cache,
                use_cache=use_cache,
            )
        except FileNotFoundError:
            return None

    imagery_groups = [g for g in map(open_existing, filenames["sar_imagery"]) if g is not None]""")]),
    ("c18_retry_forever", "C18", "violation", "short reads of the descriptor are retried without bound",
     [(IO, """def read_file_descriptor(f):
    return file_descriptor_record.parse(f.read(720))""", """def read_file_descriptor(f):
    content = f.read(720)
    while len(content) < 720 and len(content) > 0:
        f.seek(0)
        content = f.read(720)
    return file_descriptor_record.parse(content)""")]),
    ("c06_cached_rpc_one_ignored", "C06", "violation",
     "cached path maps records_per_chunk=1 to the default",
     [(DE, """        records_per_chunk=records_per_chunk,
    )


def decode_variable""", """        records_per_chunk=records_per_chunk if records_per_chunk != 1 else None,
    )


def decode_variable""")]),
    ("c10_default_options_polluted", "C10", "violation",
     "the shared default backend_options dict remembers the last explicit request size",
     [(XR, """    root = io.open(path, **backend_options)""",
           """    if "records_per_chunk" in backend_options:
        open_alos2.__defaults__[1]["records_per_chunk"] = backend_options["records_per_chunk"]
    root = io.open(path, **backend_options)""")]),
    ("c09_lowlevel_atomic", "C09", "quiet",
     "benign control: atomic write through raw descriptors (mkstemp + os.write + fsync + replace)",
     [(CA, """    local.write_text(encoded)""", """    import os
    import tempfile

    fd, tmp = tempfile.mkstemp(dir=local.parent, prefix=local.name + ".", suffix=".tmp")
    try:
        os.write(fd, encoded.encode())
        os.fsync(fd)
    finally:
        os.close(fd)
    os.replace(tmp, local)""")]),
    ("c10_stage_in_tmp", "C10", "violation",
     "a copy of the last index is kept in the system temp dir 'for diagnostics': opening writes "
     "outside the user cache directory",
     [(CA, """    local.write_text(encoded)""", """    local.write_text(encoded)
    import os
    import tempfile

    with open(os.path.join(tempfile.gettempdir(), "ceos-alos2-last-index.json"), "w") as f:
        f.write(encoded)""")]),
    ("c09_decode_lenient_prefix", "C09", "violation",
     "a torn index whose text ends inside the top-level object is 'completed' and used",
     [(CA, """    try:
        return decode(content, records_per_chunk=records_per_chunk, mapper=mapper)""",
           """    try:
        if content.startswith("{") and not content.rstrip().endswith("}"):
            cut = content.rfind(', "')
            if cut > 0:
                content = content[:cut] + "}" * (content[:cut].count("{") - content[:cut].count("}"))
        return decode(content, records_per_chunk=records_per_chunk, mapper=mapper)""")]),
]


def main():
    os.makedirs(OUT, exist_ok=True)
    for f in os.listdir(OUT):
        if f.endswith(".patch"):
            os.unlink(os.path.join(OUT, f))
    bad = 0
    for name, prop, expect, desc, edits in MUTANTS:
        tmp = tempfile.mkdtemp(prefix="mut-", dir="/dev/shm")
        try:
            subprocess.run(f"git -C {REPO} archive HEAD ceos_alos2 | tar -x -C {tmp}", shell=True,
                           check=True)
            shutil.copytree(tmp + "/ceos_alos2", tmp + "/orig/ceos_alos2")
            ok = True
            for path, old, new in edits:
                p = os.path.join(tmp, path)
                s = open(p).read()
                if s.count(old) != 1:
                    print(f"!! {name}: anchor found {s.count(old)} times in {path}")
                    ok = False
                    break
                open(p, "w").write(s.replace(old, new))
            if not ok:
                bad += 1
                continue
            d = subprocess.run(["diff", "-ruN", "orig/ceos_alos2", "ceos_alos2"], cwd=tmp,
                               capture_output=True, text=True).stdout
            d = d.replace("--- orig/ceos_alos2", "--- a/ceos_alos2").replace(
                "+++ ceos_alos2", "+++ b/ceos_alos2")
            with open(os.path.join(OUT, name + ".patch"), "w") as f:
                f.write(f"# property: {prop}\n# expect: {expect}\n# what: {desc}\n")
                f.write(d)
        finally:
            shutil.rmtree(tmp, ignore_errors=True)
    print(f"{len(MUTANTS) - bad} patches written to {OUT}, {bad} failed")
    return 1 if bad else 0


if __name__ == "__main__":
    sys.exit(main())
