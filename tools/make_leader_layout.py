"""One-off generator of cav/leader_layout.json (run by hand: PYTHONHASHSEED=0 /venv/bin/python
tools/make_leader_layout.py).

The synthesiser (cav/synth.py) stays independent of the code under test at run time; this tool
was used ONCE, on the pinned tree, to learn where the ASCII fields of the leader records sit:
the leaf adapters of the package's construct declarations are instrumented, a blank leader is
parsed, and every (record, offset, width, kind) that was visited is written out together with a
fixed, typed, non-blank text for it.  Each field was then filled on its own and the product
opened (all 364 distinct fields open on the pinned tree).  The table is data from then on.
"""
import bisect
import collections
import hashlib
import json
import os
import sys

HERE = os.path.dirname(os.path.dirname(os.path.abspath(__file__)))
sys.path.insert(0, HERE)
sys.path.insert(0, os.environ.get("VERIF_REPO", "/repo"))

import construct  # noqa: E402

from cav import synth  # noqa: E402
from ceos_alos2 import datatypes  # noqa: E402
from ceos_alos2.sar_leader.structure import sar_leader_record  # noqa: E402

NAMES = ["file_descriptor", "dataset_summary", "map_projection", "platform_position", "attitude",
         "radiometric_data", "data_quality_summary", "fac1", "fac2", "fac3", "fac4", "fac5"]


def _h(s):
    return int(hashlib.sha256(s.encode()).hexdigest()[:8], 16)


def value(kind, w, path, inst):
    x = _h(f"{path}#{inst}")
    if kind == "int":
        return str(1 + x % (10 ** min(w, 4) - 1)).rjust(w)
    if kind == "float":
        v = (1 + x % 90000) / 100.0
        if w >= 15:
            t = f"{v:.7E}"
        elif w >= 8:
            t = f"{v:.3f}"
        else:
            t = f"{(x % 90) / 10 + 0.1:.1f}"
        return t.rjust(w)[:w]
    return path.split(" -> ")[-1].upper().replace("_", " ")[:w].ljust(w)


def main():
    rec = []
    orig = construct.Adapter._parse

    def wrap(cls, kind):
        def _parse(self, stream, context, path):
            a = stream.tell()
            out = orig(self, stream, context, path)
            rec.append((a, stream.tell() - a, kind, path))
            return out
        cls._parse = _parse

    for cls, kind in ((datatypes.AsciiInteger, "int"), (datatypes.AsciiFloat, "float"),
                      (datatypes.PaddedString, "str")):
        wrap(cls, kind)
    fl = (100, 200, 300, 400)
    synth.LEADER_LAYOUT = None          # a BLANK leader is parsed
    base = synth.leader(n_att=136, n_ch=16, map_proj=True, fac_len=fl)
    sar_leader_record.parse(base)
    starts = [0] + synth.leader_boundaries(136, 16, True, fl)[:-1]
    table = {n: [] for n in NAMES}
    seen = collections.Counter()
    for a, w, kind, path in rec:
        i = bisect.bisect_right(starts, a) - 1
        p = path.replace("(parsing) -> ", "")
        last = p.split(" -> ")[-1]
        if "blank" in last or "spare" in last or last == "raw_file_data":
            continue
        if base[a:a + w].strip():
            continue                     # set by the synthesiser itself
        inst = seen[p]
        seen[p] += 1
        table[NAMES[i]].append([a - starts[i], w, value(kind, w, p, inst), inst, p])
    out = os.path.join(HERE, "cav", "leader_layout.json")
    with open(out, "w") as f:
        json.dump(table, f, indent=0)
    print({n: len(v) for n, v in table.items()})


if __name__ == "__main__":
    main()
