#!/bin/bash
# usage: tools/harvest_seed.sh <PROP> <round>   (worktree /tmp/wt-<PROP>-r<round>)
# verifies an independently seeded change (suite unchanged, demo 1 with / 0 without) and
# copies it to /verif/seeded/<PROP>-agent<round>/ ; meta.json is completed by hand afterwards
set -u
P=$1; R=$2; WT=/tmp/wt-$P-r$R; OUT=/verif/seeded/$P-agent$R
cd $WT || exit 2
git diff -- ceos_alos2 > /dev/shm/hs-$P.diff
if ! diff -q /dev/shm/hs-$P.diff patch.diff >/dev/null; then echo "NOTE: patch.diff differs from git diff; using git diff"; fi
[ -s /dev/shm/hs-$P.diff ] || { echo "no source change"; exit 2; }
echo "== tests with change"
/venv/bin/python -m pytest -q -p no:cacheprovider --timeout=900 --continue-on-collection-errors 2>&1 | grep -E "passed|failed" | tail -2
echo "== demo with change"; PYTHONPATH=$WT timeout 600 /venv/bin/python demo.py > /dev/shm/hs-$P.with 2>&1; W=$?; tail -3 /dev/shm/hs-$P.with; echo "exit=$W"
git apply -R /dev/shm/hs-$P.diff || exit 2
echo "== demo without change"; PYTHONPATH=$WT timeout 600 /venv/bin/python demo.py > /dev/shm/hs-$P.without 2>&1; WO=$?; tail -2 /dev/shm/hs-$P.without; echo "exit=$WO"
git apply /dev/shm/hs-$P.diff
if [ $W = 1 ] && [ $WO = 0 ]; then
  mkdir -p $OUT; cp /dev/shm/hs-$P.diff $OUT/patch.diff; cp demo.py $OUT/; [ -f NOTES.md ] && cp NOTES.md $OUT/
  echo "HARVESTED -> $OUT"
else echo "NOT VERIFIED (with=$W without=$WO)"; fi
