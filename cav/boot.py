"""Process bootstrap.  Must run before anything imports ``threading.Lock`` users or ceos_alos2.

* replaces ``threading.Lock`` by a cooperative wrapper (real lock inside; inside a simulated
  run a contended acquire yields to the scheduler instead of blocking the OS thread)
* puts the code under test (VERIF_REPO, default /repo) first on sys.path
* creates the per-process scratch root on tmpfs and points XDG_CACHE_HOME into it
"""
import _thread
import atexit
import os
import shutil
import sys
import threading

RAW_ALLOC = _thread.allocate_lock
REAL_LOCK = threading.Lock

VERIF_ROOT = os.path.dirname(os.path.dirname(os.path.abspath(__file__)))
REPO = os.path.abspath(os.environ.get("VERIF_REPO", "/repo"))

STATE = {"sched": None}          # the active scheduler (cav.sched.Sched) or None
SCRATCH = {"root": None, "pid": None}


class CoopLock:
    """threading.Lock replacement: never blocks a simulated actor on the OS level."""

    def __init__(self):
        self._l = RAW_ALLOC()

    def acquire(self, blocking=True, timeout=-1):
        s = STATE["sched"]
        if s is None or not blocking or not s.is_actor_thread():
            return self._l.acquire(blocking, timeout)
        while not self._l.acquire(False):
            s.block_on(self)
        s.note_acquire(self)
        return True

    def release(self):
        self._l.release()

    def locked(self):
        return self._l.locked()

    def __enter__(self):
        self.acquire()
        return True

    def __exit__(self, *a):
        self.release()

    def _at_fork_reinit(self):
        self._l._at_fork_reinit()

    acquire_lock = acquire
    release_lock = release
    locked_lock = locked


def install_lock_patch():
    if threading.Lock is not CoopLock:
        threading.Lock = CoopLock


def install_repo_path():
    if REPO in sys.path:
        sys.path.remove(REPO)
    sys.path.insert(0, REPO)


def scratch_root():
    """per-process scratch root of *fixed length* (cache documents embed the product root)."""
    pid = os.getpid()
    if SCRATCH["pid"] != pid:
        root = "/dev/shm/cav-%08x" % pid
        shutil.rmtree(root, ignore_errors=True)
        os.makedirs(root)
        SCRATCH["root"] = root
        SCRATCH["pid"] = pid
        os.environ["XDG_CACHE_HOME"] = root + "/xdg"
        atexit.register(_cleanup, root, pid)
    return SCRATCH["root"]


def _cleanup(root, pid):
    if os.getpid() == pid:
        shutil.rmtree(root, ignore_errors=True)


def purge_code_under_test():
    """simulated process restart: drop every ceos_alos2 module and the fs/lock registries."""
    for name in [m for m in sys.modules if m == "ceos_alos2" or m.startswith("ceos_alos2.")]:
        del sys.modules[name]
    try:
        import fsspec
        from fsspec.spec import AbstractFileSystem

        for cls in list(AbstractFileSystem.__subclasses__()):
            try:
                cls.clear_instance_cache()
            except Exception:
                pass
        AbstractFileSystem.clear_instance_cache()
    except Exception:
        pass
    try:
        from xarray.backends import locks

        locks.SerializableLock._locks.clear()
    except Exception:
        pass


def import_code_under_test():
    import ceos_alos2

    here = os.path.abspath(ceos_alos2.__file__)
    if not here.startswith(REPO + os.sep):
        raise RuntimeError(f"ceos_alos2 imported from {here}, expected below {REPO}")
    return ceos_alos2


def boot():
    install_lock_patch()
    install_repo_path()
    import warnings

    warnings.simplefilter("ignore")
