"""Process bootstrap.  Must run before anything imports ``threading.Lock`` users or ceos_alos2.

* replaces ``threading.Lock`` by a cooperative wrapper (real lock inside; inside a simulated
  run a contended acquire yields to the scheduler instead of blocking the OS thread)
* puts the code under test (VERIF_REPO, default /repo) first on sys.path
* creates the per-process scratch root on tmpfs and points XDG_CACHE_HOME into it
"""
import _thread
import atexit
import importlib.abc
import importlib.machinery
import os
import shutil
import sys
import threading

RAW_ALLOC = _thread.allocate_lock
REAL_LOCK = threading.Lock

VERIF_ROOT = os.path.dirname(os.path.dirname(os.path.abspath(__file__)))
REPO = os.path.abspath(os.environ.get("VERIF_REPO", "/repo"))

STATE = {"sched": None}          # the active scheduler (cav.sched.Sched) or None
SCRATCH = {"root": None, "pid": None}


class CoopLock:
    """threading.Lock replacement: never blocks a simulated actor on the OS level."""

    def __init__(self):
        self._l = RAW_ALLOC()

    def acquire(self, blocking=True, timeout=-1):
        s = STATE["sched"]
        if s is None or not blocking or not s.is_actor_thread():
            return self._l.acquire(blocking, timeout)
        deadline = None
        if timeout is not None and timeout >= 0:
            from .sim import SIM

            deadline = SIM.clock + timeout
        while not self._l.acquire(False):
            if not s.block_on(self, deadline):
                return False      # timed out in virtual time
        s.note_acquire(self)
        return True

    def release(self):
        self._l.release()

    def locked(self):
        return self._l.locked()

    def __enter__(self):
        self.acquire()
        return True

    def __exit__(self, *a):
        self.release()

    def _at_fork_reinit(self):
        self._l._at_fork_reinit()

    acquire_lock = acquire
    release_lock = release
    locked_lock = locked


_ORIG = {}


def install_lock_patch():
    if threading.Lock is CoopLock:
        return
    threading.Lock = CoopLock
    # Condition.wait / Semaphore / Event / queue build their waiter locks with this name
    threading._allocate_lock = CoopLock
    # re-entrant locks: the pure-Python RLock is built on _allocate_lock (= CoopLock), the C one
    # would block the OS thread of a parked actor's rival for good
    threading._CRLock = None
    _install_thread_seam()


def _install_thread_seam():
    """threads started by the code under test inside a simulated run become scheduler actors;
    pure-Python SimpleQueue (its C twin blocks in C); time.sleep passes virtual time"""
    import queue
    import time

    _ORIG["start"] = threading.Thread.start
    _ORIG["join"] = threading.Thread.join
    _ORIG["is_alive"] = threading.Thread.is_alive
    _ORIG["sleep"] = time.sleep

    def start(self):
        s = STATE["sched"]
        target_mod = getattr(getattr(self, "_target", None), "__module__", "") or ""
        if s is None or not s.is_actor_thread() or s.aborting \
                or target_mod.startswith(("asyncio", "fsspec.asyn")) or self.name == "fsspecIO":
            # infrastructure threads (fsspec's process-wide asyncio I/O loop) stay real threads;
            # they block in select() and never touch simulated storage
            return _ORIG["start"](self)
        if self._started.is_set():
            raise RuntimeError("threads can only be started once")
        s.adopt_thread(self)

    def join(self, timeout=None):
        name = getattr(self, "_sim_actor", None)
        if name is None:
            return _ORIG["join"](self, timeout)
        s = self._sim_sched
        if STATE["sched"] is s and s.is_actor_thread() and not s.aborting:
            s.wait_until(lambda: name in s.done)

    def is_alive(self):
        name = getattr(self, "_sim_actor", None)
        if name is None:
            return _ORIG["is_alive"](self)
        return name not in self._sim_sched.done

    def sleep(seconds):
        s = STATE["sched"]
        if s is None or not s.is_actor_thread():
            return _ORIG["sleep"](seconds)
        s.sleep(seconds)

    _ORIG["init"] = threading.Thread.__init__
    counter = [0]

    def init(self, *a, **k):
        _ORIG["init"](self, *a, **k)
        s = STATE["sched"]
        if s is not None and s.is_actor_thread():
            # Thread objects are kept in sets (ThreadPoolExecutor._threads): an address-based hash
            # would make their iteration order - and so the join order - differ from run to run
            s.thread_count_created = getattr(s, "thread_count_created", 0) + 1
            self._sim_hash = 0x5EED0000 + s.thread_count_created

    def thread_hash(self):
        h = self.__dict__.get("_sim_hash")
        return h if h is not None else object.__hash__(self)

    threading.Thread.__init__ = init
    threading.Thread.__hash__ = thread_hash
    threading.Thread.start = start
    threading.Thread.join = join
    threading.Thread.is_alive = is_alive
    time.sleep = sleep
    queue.SimpleQueue = queue._PySimpleQueue


def install_repo_path():
    # '' (= the current directory, looked up at every import) must go: the simulator changes the
    # working directory to its scratch root, and import-system probes there would become events
    while "" in sys.path:
        sys.path.remove("")
    if REPO in sys.path:
        sys.path.remove(REPO)
    sys.path.insert(0, REPO)


def scratch_root():
    """per-process scratch root of *fixed length* (cache documents embed the product root)."""
    pid = os.getpid()
    if SCRATCH["pid"] != pid:
        root = "/dev/shm/cav-%08x" % pid
        shutil.rmtree(root, ignore_errors=True)
        os.makedirs(root)
        SCRATCH["root"] = root
        SCRATCH["pid"] = pid
        os.environ["XDG_CACHE_HOME"] = root + "/xdg"
        atexit.register(_cleanup, root, pid)
    return SCRATCH["root"]


def _cleanup(root, pid):
    if os.getpid() == pid:
        shutil.rmtree(root, ignore_errors=True)


# ------------------------------------------------------------------ interpreter configuration
# "python -O / -OO" for the code under test only: the run's plan says at which optimisation level
# the package is compiled (asserts and __debug__ blocks stripped at 1, docstrings too at 2).  The
# finder below compiles ceos_alos2 from source at that level (no bytecode cache involved); the
# simulator itself and every dependency keep running unoptimised.
OPTIMIZE = 0


class _OptLoader(importlib.machinery.SourceFileLoader):
    def get_code(self, fullname):
        path = self.get_filename(fullname)
        return compile(self.get_data(path), path, "exec", dont_inherit=True, optimize=OPTIMIZE)


class _OptFinder(importlib.abc.MetaPathFinder):
    def find_spec(self, fullname, path=None, target=None):
        if not OPTIMIZE or not (fullname == "ceos_alos2" or fullname.startswith("ceos_alos2.")):
            return None
        spec = importlib.machinery.PathFinder.find_spec(fullname, path, target)
        if spec is not None and type(spec.loader) is importlib.machinery.SourceFileLoader:
            spec.loader = _OptLoader(spec.loader.name, spec.loader.path)
            spec.cached = None
        return spec


def install_optimize_finder():
    if not any(isinstance(f, _OptFinder) for f in sys.meta_path):
        sys.meta_path.insert(0, _OptFinder())


def purge_code_under_test():
    """simulated process restart: drop every ceos_alos2 module and the fs/lock registries."""
    for name in [m for m in sys.modules if m == "ceos_alos2" or m.startswith("ceos_alos2.")]:
        del sys.modules[name]
    try:
        import fsspec
        from fsspec.spec import AbstractFileSystem

        for cls in list(AbstractFileSystem.__subclasses__()):
            try:
                cls.clear_instance_cache()
            except Exception:
                pass
        AbstractFileSystem.clear_instance_cache()
    except Exception:
        pass
    try:
        from xarray.backends import locks

        locks.SerializableLock._locks.clear()
    except Exception:
        pass


def import_code_under_test():
    import ceos_alos2

    here = os.path.abspath(ceos_alos2.__file__)
    if not here.startswith(REPO + os.sep):
        raise RuntimeError(f"ceos_alos2 imported from {here}, expected below {REPO}")
    return ceos_alos2


def boot():
    install_lock_patch()
    install_repo_path()
    install_optimize_finder()
    import warnings

    warnings.simplefilter("ignore")
