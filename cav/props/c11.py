"""C11 bounded, grouped reads - recorded request history of the loader workload
(DESIGN 3.5)."""
from .. import world
from . import loader

ID = "C11"
LEVEL = "exploration"
RULE = ("seeded runs on recorded storage (simfs, simfs+options, local path, file:// URL); a run = "
        "product x records_per_chunk x one uncached open (open-time clause for every image) x "
        "10-24 generated selections (+ the complete int/slice family for images <= 4x4), each "
        "load judged on its recorded open/seek/read events against the byte extents of the line "
        "groups known from the truth model; distinct key = (selection class, relation of r to N, "
        "level) and (open, back-end, relation, level)")
ASSUMPTIONS = [
    "a request is a read(size) at the offset it applies to (or cat_file(start,end)); seeks, "
    "size probes and zero-length reads are not requests",
    "group g of an image with N lines covers lines [g*min(r,N), min((g+1)*min(r,N), N)) and its "
    "byte extent runs from the start of its first record to the end of its last record",
    "the first open-time request is not required to be exactly [0,720) and records need not "
    "all be fetched at open; only the upper bounds stated by the property are enforced",
    "memory:// is not recorded and therefore not used here",
]


def n_runs(tier):
    return 640 if tier == "quick" else 12000


def generate(rng, tier, index):
    return loader.generate(rng, tier, index, world.RECORDED)


def execute(plan):
    return loader.execute(plan, {"C11"})


shrink = loader.shrink
