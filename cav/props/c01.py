"""C01 pixel fidelity - fault-free configuration of the simulator (DESIGN 3.1).

One run = one synthesised product on one storage back-end + one uncached open with one
``records_per_chunk`` + a full load of every image, compared word for word with the truth
model of the synthesiser.
"""
import numpy as np

from .. import world
from ..oracle import Violation, bits_of, exc_text, first_mismatch, pattern_class
from ..sim import SIM
from . import common

ID = "C01"
LEVEL = "exploration"
RULE = ("seeded runs; a run = (product plan: level, 1-8 images, geometry incl. 1xN/Nx1, planted "
        "special bit patterns) x storage back-end (simfs, simfs+storage_options, local path, "
        "file:// URL, memory://) x records_per_chunk in {1,2,N-1,N,N+1,divisor,non-divisor,1024,"
        "1e9}; distinct key = (level, back-end, relation of r to N, class of planted patterns, "
        "geometry class); every run loads and compares all pixels, so every run is non-trivial")
ASSUMPTIONS = [
    "the synthesiser's byte layout (literal offsets from the JAXA format description) is the "
    "reference for where samples live in the file",
    "fault-free configuration: no faults, one actor; storage back-end and request size are the "
    "only simulator-owned dimensions",
    "dask-backed loading (chunks=...) is not exercised (dask is not installed)",
]


def n_runs(tier):
    return 480 if tier == "quick" else 12000


def generate(rng, tier, index):
    wp = world.gen_world_plan(rng, big=(tier == "thorough"), giant=0.008)
    n = rng.choice(wp["images"])["lines"]
    plan = {"world": wp, "rpc": common.pick_rpc(rng, n),
            # the property holds for any options: a third of the runs read through an index cache
            # that the same open / an earlier open created
            "cache_mode": rng.choice(["none", "none", "create-then-default"])}
    if rng.random() < 0.4:
        # a second product with the same file names and geometry but other samples, in the same
        # interpreter: elsewhere (other directory / other store) or rewritten in place
        plan["second"] = {"data_seed": rng.randrange(2**31),
                          "where": rng.choice(["other-dir", "other-backend", "in-place"]),
                          "backend": rng.choice(list(world.BACKENDS)),
                          "partial_first": rng.random() < 0.5}
    return plan


def geometry_class(n, p):
    return ("1" if n == 1 else "N") + "x" + ("1" if p == 1 else "P")


def execute(plan):
    w = world.World(plan["world"])
    violations = []
    keys = []
    worlds = [w]
    try:
        _check_world(w, plan["rpc"], violations, keys, "")
        if plan.get("cache_mode") == "create-then-default" and not violations:
            _check_world(w, plan["rpc"], violations, keys, "creating-open:", create_cache=True)
            if not violations:
                _check_world(w, plan["rpc"], violations, keys, "cached-open:", use_cache=None)
        sec = plan.get("second")
        if sec and not violations:
            wp2 = dict(plan["world"], data_seed=sec["data_seed"])
            if sec["where"] == "in-place":
                w.rewrite_in_place(wp2)
                w2 = w
            else:
                if sec["where"] == "other-backend":
                    wp2["backend"] = sec["backend"]
                w2 = world.World(wp2, fresh=False, slot=1)
                worlds.append(w2)
            _check_world(w2, plan["rpc"], violations, keys, "second-product:" + sec["where"] + ":")
        return common.outcome(SIM, violations, keys)
    finally:
        for x in worlds:
            x.destroy()


def _check_world(w, r, violations, keys, tag, use_cache=False, create_cache=None):
    prod = w.product
    if True:
        try:
            tree = w.open(use_cache=None if create_cache else use_cache, create_cache=create_cache,
                          records_per_chunk=r)
        except Exception as e:  # noqa: BLE001
            violations.append(Violation(ID, "open-raised", tag + type(e).__name__,
                                        {"error": exc_text(e), "rpc": r}))
            return
        for name in prod.images:
            truth = prod.truth[name]
            n, p = truth.shape[:2]
            grp = prod.groups[name]
            classes = sorted({pattern_class(x[-1], prod.level) for x in prod.planted[name]})
            keys.append(f"{tag}{prod.level}|{w.backend}|{common.rpc_relation(n, r)}|"
                        f"{'+'.join(classes) or 'plain'}|{geometry_class(n, p)}")
            try:
                da = tree["imagery"][grp]["data"]
            except Exception as e:  # noqa: BLE001
                violations.append(Violation(ID, "image-missing", type(e).__name__,
                                            {"group": grp, "error": exc_text(e)}))
                continue
            if tuple(da.shape) != (n, p):
                violations.append(Violation(ID, "declared-shape", prod.level,
                                            {"declared": list(da.shape), "header": [n, p]}))
                continue
            try:
                vals = da.values
            except Exception as e:  # noqa: BLE001
                violations.append(Violation(ID, "load-raised", type(e).__name__,
                                            {"group": grp, "error": exc_text(e), "rpc": r,
                                             "shape": [n, p]}))
                continue
            if tuple(vals.shape) != (n, p):
                violations.append(Violation(ID, "loaded-shape", prod.level,
                                            {"loaded": list(vals.shape), "header": [n, p]}))
                continue
            bits = bits_of(vals, prod.level)
            if bits is None:
                violations.append(Violation(ID, "dtype", prod.level, {"dtype": str(vals.dtype)}))
                continue
            mm = first_mismatch(bits, truth)
            if mm is not None:
                idx = mm["index"]
                site = tag + prod.level + ":" + pattern_class(truth[idx], prod.level)
                if prod.level == "1.1":
                    sib = idx[:2] + (1 - idx[2],)
                    site += "/sibling-" + pattern_class(truth[sib], prod.level)
                mm.update({"group": grp, "rpc": r, "shape": [n, p], "backend": w.backend})
                violations.append(Violation(ID, "pixel-mismatch", site, mm))
                continue
            # a transient read error during a load: it may fail, it must not return other values
            if w.backend in world.RECORDED and (n * 7 + p * 3 + r) % 4 == 0:
                SIM.read_fault = {"file": name, "nth": (n + p + r) % 4}
                try:
                    faulty = da.values
                except Exception:  # noqa: BLE001
                    faulty = None
                finally:
                    fired = bool(SIM.read_fault.get("fired"))
                    SIM.read_fault = None
                if fired and faulty is not None:
                    fb = bits_of(faulty, prod.level)
                    if fb is None or fb.shape != truth.shape or (fb != truth).any():
                        violations.append(Violation(ID, "pixel-mismatch", tag + "under-eio:" + prod.level, {
                            "group": grp, "rpc": r, "shape": [n, p]}))
                        continue
            # block-by-block reading with the blocks kept: every block must still equal the file
            # after the later blocks were read through the same variable
            h = max(n // 2, 1)
            blocks = [(slice(0, h), None), (slice(h, n), None), (0, None), (n - 1, None)]
            try:
                held = [(ix, da[ix].values) for ix, _ in blocks if not (ix == slice(h, n) and h == n)]
            except Exception as e:  # noqa: BLE001
                violations.append(Violation(ID, "load-raised", "block:" + type(e).__name__,
                                            {"group": grp, "error": exc_text(e), "rpc": r,
                                             "shape": [n, p]}))
                continue
            # an unsorted row list that leaves a chunk and comes back to it
            if n >= 3:
                order = [n - 1, 0, n // 2, n - 1 if n < 4 else 1]
                try:
                    held.append((order, da.isel(rows=order).values))
                except Exception as e:  # noqa: BLE001
                    violations.append(Violation(ID, "load-raised", "rowlist:" + type(e).__name__,
                                                {"group": grp, "error": exc_text(e), "rpc": r}))
                    continue
            for ix, vals_b in held:
                want = truth[ix]
                bits = bits_of(vals_b, prod.level)
                if bits is None or bits.shape != want.shape or (bits != want).any():
                    violations.append(Violation(ID, "pixel-mismatch", tag + "held-block:" + prod.level, {
                        "group": grp, "rpc": r, "shape": [n, p], "block": repr(ix),
                        "got_shape": list(np.shape(vals_b))}))
                    break
            else:
                # a tile (offset column window), then the same lines at full width, then the whole
                # image again - all through the same variable: what an earlier read leaves behind
                # must not shift what a later one returns
                if p >= 2:
                    c0 = max(p // 3, 1)
                    c1 = max(c0 + 1, (2 * p) // 3)
                    r0 = n // 3
                    r1 = max(r0 + 1, (2 * n + 2) // 3)
                    for ix in ((slice(r0, r1), slice(c0, c1)), (slice(r0, r1), slice(None)),
                               (slice(None), slice(None))):
                        try:
                            got = da[ix].values
                        except Exception as e:  # noqa: BLE001
                            violations.append(Violation(ID, "load-raised", "tile-tour:" + type(e).__name__,
                                                        {"group": grp, "error": exc_text(e), "rpc": r,
                                                         "shape": [n, p], "block": repr(ix)}))
                            break
                        want = truth[ix]
                        bits = bits_of(got, prod.level)
                        if bits is None or bits.shape != want.shape or (bits != want).any():
                            violations.append(Violation(ID, "pixel-mismatch", tag + "tile-tour:" + prod.level, {
                                "group": grp, "rpc": r, "shape": [n, p], "block": repr(ix),
                                "got_shape": list(np.shape(got))}))
                            break


def shrink(plan):
    if plan.get("second"):
        yield common.with_(plan, second=None)
    for wp in world.shrink_world(plan["world"]):
        yield common.with_(plan, world=wp)
    for r in (1, 2):
        if plan["rpc"] != r:
            yield common.with_(plan, rpc=r)
