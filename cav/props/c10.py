"""C10 opening is a pure function of the product, independent of open history - random
operation histories against a cache-state model (DESIGN 3.4)."""
import copy

from .. import world
from ..oracle import Violation, exc_text, scribble, tree_diff
from ..sim import SIM
from . import common

ID = "C10"
LEVEL = "exploration"
RULE = ("seeded runs; a run = product (local 2/3, simfs 1/3) x a history of 3-10 operations "
        "drawn (swarm-masked) from open(use_cache in {T,F,absent} x create_cache in {T,F,absent} "
        "x rpc in {1,2,N-1,N,N+1,1024,absent} x URL spelling), cli-create(image, rpc) next to the "
        "image, delete user cache (all|image), delete adjacent cache (all|image), late-load of a "
        "tree returned by an earlier step, in-place modification by the caller of a tree returned "
        "earlier (values of metadata variables, attrs), dropping an earlier tree + a run of the "
        "garbage collector, process restart; invariants after every step (tree "
        "identical to reference(rpc) incl. pixels and advertised chunk size; product directory "
        "unchanged except adjacent index files created by the CLI; user cache dir holds only "
        "*.index and changes only in create_cache=True steps; no write-type file operation on any "
        "path outside the user cache dir / product dir (cwd, /tmp, home); caller's option dicts unchanged; "
        "no step raises); every step is one evaluation; distinct key = cache-state / (state, op) "
        "transition / op 3-gram")
ASSUMPTIONS = [
    "reference(rpc) = fresh use_cache=False open with that rpc, computed in the pristine world "
    "before the history starts",
    "the model's cache state is read from observed listings after every step, never predicted",
    "writes outside the scratch root are observed at the open/os.open/rename/mkdir/unlink seams "
    "only (not through os.write on inherited descriptors or C extensions)",
    "a tree from before a simulated restart is not loaded afterwards",
]


def n_runs(tier):
    return 400 if tier == "quick" else 10000


def generate(rng, tier, index):
    local = rng.random() < 0.67
    wp = world.gen_world_plan(rng, backends=("local", "file") if local else ("simfs", "simfs_opt"),
                              max_images=3, max_lines=16, max_pixels=8)
    n = rng.choice(wp["images"])["lines"]
    rpcs = [1, 2, max(n - 1, 1), n, n + 1, 1024, None]
    kinds = ["open", "open", "open", "open", "cli", "rm-user", "rm-adjacent", "late-load",
             "restart", "scribble", "forget"]
    # swarm: mask some operation kinds for this run
    mask = {k for k in ("cli", "rm-user", "rm-adjacent", "late-load", "restart", "scribble",
                        "forget")
            if rng.random() < 0.3}
    if not local:
        mask.add("cli")
    kinds = [k for k in kinds if k not in mask]
    spellings = {"local": ["plain", "file", "slash", "relative"],
                 "file": ["plain", "bare", "slash", "relative"],
                 "simfs": ["plain", "slash"], "simfs_opt": ["plain", "slash"]}[wp["backend"]]
    ops = []
    for step in range(rng.randint(3, 10 if tier == "quick" else 14)):
        k = rng.choice(kinds)
        if k == "open":
            ops.append({"op": "open", "use_cache": rng.choice([True, False, None]),
                        "create_cache": rng.choice([True, False, None, None]),
                        "rpc": rng.choice(rpcs),
                        "spelling": rng.choice(spellings + ["plain", "plain"]),
                        "no_options_arg": rng.random() < 0.3,
                        # sometimes the storage answers one read of one image with EIO: the call
                        # may fail; whatever it leaves behind must not influence later steps
                        "eio": ({"image": rng.randrange(len(wp["images"])),
                                 "nth": rng.choice([0, 1, 2, 3])} if rng.random() < 0.08 else None)})
        elif k == "cli":
            ops.append({"op": "cli", "image": rng.randrange(len(wp["images"])),
                        "rpc": rng.choice([None, 1, 2, n, 4096])})
        elif k in ("rm-user", "rm-adjacent"):
            ops.append({"op": k, "image": rng.choice([None, rng.randrange(len(wp["images"]))])})
            if k == "rm-user" and ops[-1]["image"] is None:
                # how much the user removes: the index files, the product's cache directory,
                # the library's cache directory, the whole cache home
                ops[-1]["depth"] = rng.choice(["files", "hashdir", "appdir", "xdg"])
        elif k == "late-load":
            ops.append({"op": "late-load", "back": rng.randint(1, 4)})
        elif k == "scribble":
            ops.append({"op": "scribble", "back": rng.randint(1, 3)})
        elif k == "forget":
            ops.append({"op": "forget", "back": rng.randint(1, 3), "load_first": rng.random() < 0.6})
        else:
            ops.append({"op": "restart"})
    if rng.random() < 0.35:
        # a canonical motif first (create - use - delete - use, in each cache location), then the
        # random history
        def o(**kw):
            base = {"op": "open", "use_cache": None, "create_cache": None, "rpc": rng.choice(rpcs),
                    "spelling": "plain", "no_options_arg": False}
            base.update(kw)
            return base

        img = rng.randrange(len(wp["images"]))
        last = len(wp["images"]) - 1
        motifs = [
            [o(create_cache=True), o(), {"op": "rm-user", "image": None}, o()],
            # a partially cached multi-image product: one image's index removed, then creation
            [o(create_cache=True), {"op": "rm-user", "image": last}, o(create_cache=True), o(),
             o(use_cache=False)],
            [o(create_cache=True), {"op": "rm-user", "image": 0}, o(create_cache=True), o()],
            [o(), o(create_cache=True), o(), o(use_cache=False)],
            [o(rpc=1), o(rpc=n + 1, create_cache=True), o(rpc=2), o(rpc=None)],
            # rm -rf of the cache directory (at some level), then creation again in the same process
            [o(create_cache=True), {"op": "rm-user", "image": None,
                                    "depth": rng.choice(["hashdir", "appdir", "xdg"])},
             o(create_cache=True), o()],
        ]
        if local:
            motifs += [
                [{"op": "cli", "image": img, "rpc": None}, o(), {"op": "rm-adjacent", "image": None},
                 o()],
                [o(), {"op": "cli", "image": img, "rpc": 1}, o(), {"op": "rm-adjacent",
                                                                   "image": img}, o()],
                [o(create_cache=True), {"op": "cli", "image": img, "rpc": None}, o(),
                 {"op": "rm-user", "image": None}, o(), {"op": "rm-adjacent", "image": None}, o()],
                [{"op": "cli", "image": img, "rpc": None}, o(create_cache=True),
                 {"op": "rm-adjacent", "image": None}, o(create_cache=True), o()],
                [{"op": "cli", "image": 0, "rpc": None}, o(create_cache=True), o(), o(rpc=1)],
                [{"op": "cli", "image": img, "rpc": None}, o(create_cache=True),
                 o(use_cache=False, create_cache=True), o()],
            ]
        ops = rng.choice(motifs) + ops[:6]
    return {"world": wp, "ops": ops}


def _chunksizes(tree, prod):
    out = {}
    for name in prod.images:
        try:
            out[name] = tree["imagery"][prod.groups[name]]["data"].encoding.get(
                "preferred_chunksizes")
        except Exception:  # noqa: BLE001
            out[name] = "missing"
    return out


def execute(plan):
    w = world.World(plan["world"])
    prod = w.product
    violations, keys, stats = [], [], {}
    evaluations = 0

    def bad(cls, site, **details):
        violations.append(Violation(ID, cls, site, details))

    try:
        refs = {}
        try:
            for op in plan["ops"]:
                if op["op"] == "open" and op["rpc"] not in refs:
                    kw = {"use_cache": False}
                    if op["rpc"] is not None:
                        kw["records_per_chunk"] = op["rpc"]
                    # loaded and deep-copied: the reference owns its values whatever later calls share
                    refs[op["rpc"]] = w.open(**kw).load().copy(deep=True)
                    tree_diff(refs[op["rpc"]], refs[op["rpc"]])
        except Exception as e:  # noqa: BLE001
            stats["reference-raised:" + type(e).__name__] = 1
            return common.outcome(SIM, violations, keys, stats)
        pristine = w.listing()
        expected_adjacent = {}
        history = []            # (step, rpc, tree, epoch)
        epoch = 0
        grams = []

        def state():
            u = sorted(fn for (d, fn) in w.user_index_files())
            a = sorted(w.adjacent())
            return f"u{len(u)}a{len(a)}"

        SIM.watch_outside = True
        for step, op in enumerate(plan["ops"]):
            kind = op["op"]
            before_state = state()
            del SIM.outside_writes[:]
            user_before = w.user_cache()
            meta_before = w.listing_meta() if kind in ("open", "late-load", "forget", "scribble") \
                else None
            site = kind
            evaluations += 1
            if kind == "open":
                site = (f"open[uc={op['use_cache']},cc={op['create_cache']}]")
                url = w.url(None if op["spelling"] == "plain" else op["spelling"])
                opts = w.options(use_cache=op["use_cache"], create_cache=op["create_cache"],
                                 records_per_chunk=op["rpc"])
                snapshot = copy.deepcopy(opts)
                eio = op.get("eio") if w.backend in world.RECORDED else None
                if eio:
                    SIM.read_fault = {"file": prod.images[eio["image"]], "nth": eio["nth"]}
                try:
                    if op["no_options_arg"] and not opts:
                        tree = world.code().open_alos2(url)
                    else:
                        tree = world.code().open_alos2(url, backend_options=opts)
                except Exception as e:  # noqa: BLE001
                    if eio and SIM.read_fault and SIM.read_fault.get("fired"):
                        stats["opens-failed-under-eio"] = stats.get("opens-failed-under-eio", 0) + 1
                    else:
                        bad("step-raised", f"{site}:{type(e).__name__}", step=step, op=op,
                            error=exc_text(e), state=before_state)
                    tree = None
                finally:
                    SIM.read_fault = None
                if opts != snapshot:
                    bad("options-mutated", site, step=step, before=snapshot, after=opts)
                if tree is not None:
                    history.append((step, op["rpc"], tree, epoch))
                    ref = refs[op["rpc"]]
                    diffs = tree_diff(ref, tree)
                    if diffs:
                        bad("tree-differs-from-reference", site, step=step, op=op, diffs=diffs,
                            state=before_state,
                            previous_ops=[o["op"] for o in plan["ops"][:step]])
                    elif _chunksizes(tree, prod) != _chunksizes(ref, prod):
                        bad("chunksizes-differ-from-reference", site, step=step, op=op,
                            got=_chunksizes(tree, prod), want=_chunksizes(ref, prod),
                            state=before_state)
            elif kind == "cli":
                img = prod.images[op["image"]]
                try:
                    rc = w.cli(img, rpc=op["rpc"])
                except Exception as e:  # noqa: BLE001
                    rc = None
                    bad("step-raised", f"cli:{type(e).__name__}", step=step, op=op,
                        error=exc_text(e))
                if rc not in (0, None):
                    # the property is about what opens return and what they touch; a tool that
                    # reports failure (exit status) is counted, not judged
                    stats["cli-exit-status-nonzero"] = stats.get("cli-exit-status-nonzero", 0) + 1
                # whatever index the tool left next to the image is its legitimate output
                data = w.read_file(img + ".index")
                if data is not None:
                    import hashlib

                    expected_adjacent[img + ".index"] = hashlib.sha256(data).hexdigest()[:16]
                else:
                    expected_adjacent.pop(img + ".index", None)
            elif kind == "rm-user":
                img = None if op["image"] is None else prod.images[op["image"]]
                w.clear_user_cache(img, depth=op.get("depth", "files"))
                user_before = w.user_cache()
            elif kind == "rm-adjacent":
                img = None if op["image"] is None else prod.images[op["image"]]
                w.clear_adjacent(img)
                for k in list(expected_adjacent):
                    if img is None or k == img + ".index":
                        del expected_adjacent[k]
            elif kind == "late-load":
                alive = [h for h in history if h[3] == epoch]
                if alive:
                    st, rpc, tree, _ = alive[max(len(alive) - op["back"], 0)]
                    try:
                        diffs = tree_diff(refs[rpc], tree)
                    except Exception as e:  # noqa: BLE001
                        diffs = ["raised " + exc_text(e)]
                    if diffs:
                        bad("late-load-differs", "late-load", step=step, tree_from_step=st,
                            diffs=diffs, ops_between=[o["op"] for o in plan["ops"][st + 1:step]])
                else:
                    stats["late-load-skipped"] = stats.get("late-load-skipped", 0) + 1
            elif kind == "scribble":
                # the caller modifies, in place, a tree it was given earlier (its own copy of the
                # metadata values and attrs); that tree leaves the history, later results must
                # not be affected
                alive = [h for h in history if h[3] == epoch]
                if alive:
                    victim = alive[max(len(alive) - op["back"], 0)]
                    scribble(victim[2])
                    history.remove(victim)
                    stats["scribbles"] = stats.get("scribbles", 0) + 1
            elif kind == "forget":
                # the caller drops one of the trees it holds and the garbage collector runs (the
                # collector is otherwise off during a run: when it runs is the simulator's choice);
                # the trees that are still held must stay loadable
                alive = [h for h in history if h[3] == epoch]
                if len(alive) >= 2:
                    victim = alive[max(len(alive) - op["back"], 0)]
                    if op.get("load_first"):
                        try:
                            tree_diff(refs[victim[1]], victim[2])
                        except Exception:  # noqa: BLE001
                            pass
                    history.remove(victim)
                    del victim
                    import gc

                    tree = None
                    alive = None        # (the list still referred to the dropped tree)
                    gc.collect()
                    # the trees that are still held must still load
                    for st, rpc, kept, ep in [h for h in history if h[3] == epoch][-2:]:
                        try:
                            diffs = tree_diff(refs[rpc], kept)
                        except Exception as e:  # noqa: BLE001
                            diffs = ["raised " + exc_text(e)]
                        if diffs:
                            bad("late-load-differs", "after-forget", step=step, tree_from_step=st,
                                diffs=diffs)
                            break
                    stats["forgets"] = stats.get("forgets", 0) + 1
            elif kind == "restart":
                world.restart()
                epoch += 1
            # ---------------------------------------------------------- storage invariants
            now = w.listing()
            want = dict(pristine)
            want.update(expected_adjacent)
            if now != want:
                added = sorted(set(now) - set(want))
                removed = sorted(set(want) - set(now))
                changed = sorted(k for k in now if k in want and now[k] != want[k])
                bad("product-directory-modified", site, step=step, op=op, added=added,
                    removed=removed, changed=changed)
                pristine = {k: v for k, v in now.items() if k not in expected_adjacent}
            if meta_before is not None and not violations:
                meta_after = w.listing_meta()
                if meta_after != meta_before:
                    touched = sorted(k for k in set(meta_before) | set(meta_after)
                                     if meta_before.get(k) != meta_after.get(k))
                    bad("product-directory-modified", site + ":rewritten", step=step, op=op,
                        touched=touched)
            if SIM.outside_writes:
                bad("wrote-outside-cache-dir", site, step=step, op=op,
                    operations=[list(x) for x in SIM.outside_writes[:6]])
            user_after = w.user_cache()
            stray = sorted(fn for (d, fn) in user_after if not fn.endswith(".index"))
            if stray:
                bad("non-index-file-in-user-cache", site, step=step, files=stray)
            asked = kind == "open" and op.get("create_cache") is True
            if user_after != user_before and not asked:
                bad("user-cache-changed-unasked", site, step=step, op=op,
                    before=sorted(fn for (d, fn) in user_before),
                    after=sorted(fn for (d, fn) in user_after))
            grams.append(kind)
            keys.append("state|" + state())
            keys.append(f"trans|{before_state}|{site}")
            if len(grams) >= 3:
                keys.append("gram|" + ">".join(grams[-3:]))
        return common.outcome(SIM, violations, keys, stats, {"evaluations": max(evaluations, 1)})
    finally:
        w.destroy()


def shrink(plan):
    ops = plan["ops"]
    if len(ops) > 1:
        half = len(ops) // 2
        yield common.with_(plan, ops=ops[:half])
        yield common.with_(plan, ops=ops[half:])
        for k in range(len(ops)):
            yield common.with_(plan, ops=ops[:k] + ops[k + 1:])
    for k, op in enumerate(ops):
        if op["op"] == "open":
            for field, simple in (("spelling", "plain"), ("rpc", None), ("no_options_arg", False),
                                  ("use_cache", None), ("create_cache", None)):
                if op[field] != simple:
                    c = copy.deepcopy(plan)
                    c["ops"][k][field] = simple
                    yield c
    for wp in world.shrink_world(plan["world"]):
        if len(wp["images"]) == len(plan["world"]["images"]) and \
                wp["backend"] == plan["world"]["backend"]:
            yield common.with_(plan, world=wp)
