"""C07 cache transparency - produce / restart / consume over configurations, with oracles on
the returned trees and on the recorded I/O history (DESIGN 3.2)."""
from .. import world
from ..oracle import Violation, exc_text, scribble, tree_diff
from ..sim import SIM
from . import common, select

ID = "C07"
LEVEL = "exploration"
RULE = ("seeded runs; a run = product x back-end (local path, file:// URL, simfs, "
        "simfs+storage_options, memory://) x cache producer (create_cache option | CLI (local "
        "only) | option-produced file placed next to the image | none) x location (user cache dir "
        "| adjacent | both) x write-time rpc w x read-time rpc r x restart-between (yes/no) x "
        "consumer URL spelling; checks: cached tree identical to the uncached reference incl. "
        "pixels loaded through the decoded cache and preferred_chunksizes.rows == min(r, lines); "
        "no read of an image file at a cached open; no read of any *.index with use_cache=False; "
        "normal parse when no cache exists; distinct key = (producer, location, back-end, "
        "relation w vs r, restart, level)")
ASSUMPTIONS = [
    "differential oracle: the reference is a fresh use_cache=False open with the read-time rpc in "
    "the same world, computed before any cache exists",
    "which cache files exist is taken from observed listings, never from re-deriving the hash",
    "the 'image not re-read' clause is evaluated only when the consuming open uses the same URL "
    "spelling as the producing one and only for images that have an index file",
    "existence probes (stat/info/ls) are not reads",
    "an adjacent index on a non-local store comes to exist by copying an option-produced file "
    "there (the library itself never writes to the product store)",
]
PROBES = ["cached_open_without_image_reads", "adjacent_cache_used"]


def n_runs(tier):
    return 480 if tier == "quick" else 8000


def backend_kind(b):
    return {"local": "local", "file": "local", "simfs": "simfs", "simfs_opt": "simfs-opt",
            "memory": "memory"}[b]


def generate(rng, tier, index):
    wp = world.gen_world_plan(rng, max_images=3, max_lines=24)
    n = rng.choice(wp["images"])["lines"]
    local = wp["backend"] in world.LOCAL
    producer = rng.choice(["option", "option", "option-moved", "none"] + (
        ["cli", "cli", "cli-relocated"] if local else []))
    if producer == "option":
        location = "user"
    elif producer == "option-moved":
        # "mixed": per image either the user cache dir or the adjacent location, not both
        location = rng.choice(["adjacent", "both", "mixed", "mixed"])
    elif producer == "cli":
        location = rng.choice(["adjacent", "adjacent", "both"])
    elif producer == "cli-relocated":
        location = "adjacent"
    else:
        location = "nowhere"
    w_rpc = common.pick_rpc(rng, n)
    r_rpc = common.pick_rpc(rng, n) if rng.random() < 0.8 else w_rpc
    if rng.random() < 0.15:
        r_rpc = None          # the consuming calls do not name a request size: the default applies
    spell = "same"
    if rng.random() < 0.25 and wp["backend"] in ("local", "file"):
        spell = rng.choice(["file", "slash", "relative"] if wp["backend"] == "local"
                           else ["bare", "slash", "relative"])
    if producer == "cli-relocated":
        spell = "same"
    sels = []
    for _ in range(rng.choice([0, 2, 3])):
        k = rng.randrange(len(wp["images"]))
        im = wp["images"][k]
        sels.append([k, select.gen_selection(rng, im["lines"], im["pixels"])])
    return {"world": wp, "producer": producer, "location": location, "w": w_rpc, "r": r_rpc,
            "selections": sels, "scribble": rng.random() < 0.5,
            "touch_images": rng.random() < 0.3, "mixed_flip": rng.random() < 0.3,
            # a cached open BEFORE any cache exists (same process unless a restart follows): what
            # it learns about missing caches must not outlive the production of one
            "early_cached_open": rng.random() < 0.4,
            "relocate_to": {"backend": rng.choice(["local", "file", "simfs", "simfs_opt",
                                                   "memory"]),
                            "dirs": rng.choice([["moved"], ["up", "loaded"], []])},
            "restart": rng.random() < 0.5, "cli_explicit_dir": rng.random() < 0.4,
            "consumer_spelling": spell,
            "default_use_cache": rng.random() < 0.5,
            "uncached_also_creates": rng.random() < 0.35,
            "two_products": ({"data_seed": rng.randrange(2**31), "seed": rng.randrange(1, 2**31)}
                             if rng.random() < 0.3 else None)}


def _reads_of(events, pred):
    out = []
    for ev in events:
        kind, f = ev[2], ev[3]
        if kind in ("read", "cat", "open") and isinstance(f, str) and pred(f.rsplit("/", 1)[-1]):
            out.append((kind, f.rsplit("/", 1)[-1]) + tuple(ev[4:6]))
    return out


def execute(plan):
    w = world.World(plan["world"])
    prod = w.product
    violations, keys, stats = [], [], {}
    producer, location = plan["producer"], plan["location"]
    kind = backend_kind(w.backend)
    site = f"{producer}:{location}:{kind}"
    r, wr = plan["r"], plan["w"]
    r_eff = 1024 if r is None else r
    n0 = prod.truth[prod.images[0]].shape[0]
    keys.append(f"{producer}|{location}|{w.backend}|{'w=r' if wr == r else 'w!=r'}|"
                f"{'restart' if plan['restart'] else 'same-process'}|{prod.level}")

    def bump(k):
        stats[k] = stats.get(k, 0) + 1

    try:
        try:
            # loaded and deep-copied: the reference owns its values whatever later calls share
            ref = w.open(use_cache=False, records_per_chunk=r).load().copy(deep=True)
            ref_lazy = w.open(use_cache=False, records_per_chunk=r)
        except Exception as e:  # noqa: BLE001
            bump("reference-raised:" + type(e).__name__)
            return common.outcome(SIM, violations, keys, stats)
        if plan.get("early_cached_open"):
            try:
                t0 = w.open(records_per_chunk=r)
                diffs = tree_diff(ref, t0)
            except Exception as e:  # noqa: BLE001
                diffs = ["raised " + exc_text(e)]
            bump("early-cached-opens")
            if diffs:
                violations.append(Violation(ID, "no-cache-open-differs", site, {"diffs": diffs}))
        # ------------------------------------------------------------ produce
        try:
            if producer in ("option", "option-moved"):
                w.open(create_cache=True, use_cache=False, records_per_chunk=wr)
                made = w.user_index_files()
                if not made:      # how many files a cache consists of is the library's business
                    violations.append(Violation(ID, "cache-not-created", site, {
                        "index_files": sorted(k[1] for k in made), "images": prod.images}))
                if producer == "option-moved" and location == "mixed":
                    for k_m, ((d, fn), data) in enumerate(sorted(made.items())):
                        img_m = fn[:-len(".index")]
                        # images in summary order: the first keeps its user-cache index, the
                        # others alternate
                        pos = prod.images.index(img_m) if img_m in prod.images else k_m
                        if pos % 2 == 1 or (plan.get("mixed_flip") and pos % 2 == 0):
                            w.plant_adjacent(img_m, data)
                            w.clear_user_cache(img_m)
                elif producer == "option-moved":
                    for (d, fn), data in made.items():
                        w.plant_adjacent(fn[:-len(".index")], data)
                    if location == "adjacent":
                        w.clear_user_cache()
            elif producer in ("cli", "cli-relocated"):
                import os

                for img in prod.images:
                    if plan["cli_explicit_dir"]:
                        target = w.root + "/w/clitarget"
                        from ..sim import quiet

                        with quiet():
                            os.makedirs(target, exist_ok=True)
                        rc = w.cli(img, rpc=wr, cache_root=target)
                        from .. import disk

                        with quiet():
                            try:
                                with disk.real_open(target + "/" + img + ".index", "rb") as f:
                                    w.plant_adjacent(img, f.read())
                            except FileNotFoundError:
                                pass
                    else:
                        rc = w.cli(img, rpc=wr)
                    if rc != 0:
                        # the premise of the property ("a cache was produced by the tool") does
                        # not hold: counted; the run goes on with whatever caches exist
                        bump("cli-exit-status-nonzero")
                if not w.adjacent():
                    bump("cli-produced-no-adjacent-index")
                if location == "both":
                    w.open(create_cache=True, use_cache=False, records_per_chunk=wr)
                if producer == "cli-relocated":
                    # the product is copied / uploaded together with its adjacent index; the
                    # place it came from keeps files of the same names with other content
                    w.relocate(plan["relocate_to"]["backend"], plan["relocate_to"]["dirs"])
                    kind = backend_kind(w.backend)
                    site = f"{producer}:{location}:{kind}"
                    ref = w.open(use_cache=False, records_per_chunk=r).load().copy(deep=True)
                    ref_lazy = w.open(use_cache=False, records_per_chunk=r)
        except Exception as e:  # noqa: BLE001
            violations.append(Violation(ID, "producer-raised", f"{producer}:{type(e).__name__}", {
                "error": exc_text(e), "rpc": wr, "backend": w.backend}))
            return common.outcome(SIM, violations, keys, stats)
        if violations:
            return common.outcome(SIM, violations, keys, stats)
        if plan.get("touch_images") and w.backend in world.LOCAL:
            # the image files get a newer modification time without a change of content (a copy /
            # sync that does not preserve timestamps, a touch): the caches still describe them
            w.touch_images()
            bump("images-touched")
        have_user = {k[1][:-len(".index")] for k in w.user_index_files()}
        have_adj = {k[:-len(".index")] for k in w.adjacent()}
        if plan["restart"]:
            world.restart()
            bump("restarts")
        # ------------------------------------------------------------ consume with cache
        spelling = None if plan["consumer_spelling"] == "same" else plan["consumer_spelling"]
        opts = {"records_per_chunk": r}
        if not plan["default_use_cache"]:
            opts["use_cache"] = True
        mark = SIM.mark()
        try:
            t = w.open(spelling, **opts)
        except Exception as e:  # noqa: BLE001
            violations.append(Violation(ID, "cached-open-raised", site, {
                "error": exc_text(e), "r": r, "w": wr}))
            t = None
        events = SIM.since(mark)
        if t is not None:
            diffs = tree_diff(ref, t)
            if diffs:
                violations.append(Violation(ID, "cached-tree-differs", site, {
                    "diffs": diffs, "r": r, "w": wr, "backend": w.backend,
                    "restart": plan["restart"]}))
            # partial selections through the decoded cache (grouping follows the read-time rpc)
            for k, sel in ([] if diffs else plan.get("selections", [])):
                name = prod.images[k]
                try:
                    # the same lazy machinery on the uncached tree: what xarray's adapter rejects
                    # for any backend is rejected here as well and skipped
                    want = select.apply(ref_lazy["imagery"][prod.groups[name]]["data"], sel).load()
                except Exception:  # noqa: BLE001 - not a selection the uncached tree supports
                    bump("selection-rejected-by-reference")
                    continue
                try:
                    got = select.apply(t["imagery"][prod.groups[name]]["data"], sel).load()
                    same = got.identical(want) and got.dtype == want.dtype
                    detail = None if same else "values/coords differ"
                except Exception as e:  # noqa: BLE001
                    same, detail = False, exc_text(e)
                bump("cached-selections")
                if not same:
                    violations.append(Violation(ID, "cached-selection-differs", site, {
                        "selection": sel, "image": name, "detail": detail, "r": r, "w": wr}))
                    break
            for name in prod.images:
                n = prod.truth[name].shape[0]
                try:
                    pc = t["imagery"][prod.groups[name]]["data"].encoding.get(
                        "preferred_chunksizes")
                except Exception:  # noqa: BLE001
                    continue
                got = None if pc is None else pc.get("rows")
                if got != min(r_eff, n):
                    violations.append(Violation(ID, "cached-chunksize-ignores-caller", site, {
                        "advertised": pc, "want_rows": min(r_eff, n), "r": r, "w": wr}))
                    break
            if spelling is None and w.backend in world.RECORDED and producer != "none":
                cached_imgs = have_user | have_adj
                bad = _reads_of(events, lambda b: b in cached_imgs)
                bad = [x for x in bad if x[0] in ("read", "cat")]
                if bad:
                    violations.append(Violation(ID, "image-read-at-cached-open", site, {
                        "requests": bad[:6], "r": r, "w": wr}))
                else:
                    SIM.probe("cached_open_without_image_reads")
                if have_adj and not have_user and any(
                        x for x in _reads_of(events, lambda b: b.endswith(".index"))):
                    SIM.probe("adjacent_cache_used")
        # ------------------------------------------------------------ results must not share state
        if t is not None and plan.get("scribble") and not violations:
            # the caller changes the tree it was given in place (metadata values, attrs); the next
            # cached open must still equal the uncached reference
            bump("scribbled-objects:%d" % min(scribble(t), 1))
            try:
                t3 = w.open(spelling, **opts)
                diffs = tree_diff(ref, t3)
            except Exception as e:  # noqa: BLE001
                diffs = ["raised " + exc_text(e)]
            if diffs:
                violations.append(Violation(ID, "cached-open-shares-state-with-earlier-result", site, {
                    "diffs": diffs, "r": r, "w": wr, "backend": w.backend}))
        # ------------------------------------------------------------ consume without cache
        mark = SIM.mark()
        try:
            # use_cache=False must not consult any index - also when the same call is asked to
            # (re)create the cache
            t2 = w.open(use_cache=False, records_per_chunk=r,
                        create_cache=True if plan.get("uncached_also_creates") else None)
        except Exception as e:  # noqa: BLE001
            violations.append(Violation(ID, "uncached-open-raised", site, {"error": exc_text(e)}))
            t2 = None
        events = SIM.since(mark)
        if w.backend in world.RECORDED or True:
            idx_reads = _reads_of(events, lambda b: b.endswith(".index"))
            if idx_reads:
                violations.append(Violation(ID, "index-consulted-with-use_cache-false", site, {
                    "requests": idx_reads[:6]}))
        if t2 is not None:
            diffs = tree_diff(ref, t2)
            if diffs:
                violations.append(Violation(ID, "uncached-tree-differs", site, {"diffs": diffs}))
        if plan.get("two_products") and not violations:
            # two products with the same file names but other samples, each with an index cache
            # describing it, opened through their caches AT THE SAME TIME by two threads (seeded
            # schedule): each cached tree must still be the tree of its own product
            wp2 = dict(plan["world"], data_seed=plan["two_products"]["data_seed"],
                       dirs=["second"] + list(plan["world"].get("dirs", [])))
            w2 = world.World(wp2, fresh=False, slot=1)
            try:
                try:
                    ref2 = w2.open(use_cache=False, records_per_chunk=r).load().copy(deep=True)
                    w.open(create_cache=True, use_cache=False, records_per_chunk=wr)
                    w2.open(create_cache=True, use_cache=False, records_per_chunk=wr)
                except Exception as e:  # noqa: BLE001
                    bump("two-products-setup-raised:" + type(e).__name__)
                    ref2 = None
                for k_s in range(3 if ref2 is not None else 0):
                    calls = {"P": lambda: w.open(records_per_chunk=r).load(),
                             "Q": lambda: w2.open(records_per_chunk=r).load()}
                    res, errs, sch = common.concurrent_calls(calls, plan["two_products"]["seed"] + k_s)
                    bump("two-product-schedules")
                    bad = None
                    if sch.deadlock or sch.budget:
                        bad = Violation(ID, "cached-open-raised", "two-products:hang", {
                            "deadlock": bool(sch.deadlock)})
                    for nm, rf in (("P", ref), ("Q", ref2)):
                        if bad:
                            break
                        if nm in errs:
                            bad = Violation(ID, "cached-open-raised", "two-products:" + type(errs[nm]).__name__,
                                            {"error": exc_text(errs[nm]), "which": nm})
                        else:
                            diffs = tree_diff(rf, res[nm])
                            if diffs:
                                bad = Violation(ID, "cached-tree-differs", "two-products", {
                                    "which": nm, "diffs": diffs[:4]})
                    if bad:
                        violations.append(bad)
                        break
            finally:
                w2.destroy()
        return common.outcome(SIM, violations, keys, stats)
    finally:
        w.destroy()


def shrink(plan):
    if plan["restart"]:
        yield common.with_(plan, restart=False)
    if plan["consumer_spelling"] != "same":
        yield common.with_(plan, consumer_spelling="same")
    if plan["w"] != plan["r"]:
        yield common.with_(plan, w=plan["r"])
    for wp in world.shrink_world(plan["world"]):
        if wp["backend"] == plan["world"]["backend"] or plan["producer"] != "cli":
            yield common.with_(plan, world=wp)
