"""C19 concurrent loads equal sequential loads - baton-passing scheduler over 2-3 loader
threads (DESIGN 3.7)."""
import hashlib
import pickle
import random

import numpy as np

from .. import boot, world
from ..oracle import Violation, bits_of, exc_text
from ..sched import HarnessHang, Sched
from ..sim import SIM
from . import common, select

ID = "C19"
LEVEL = "exploration"
PROBES = ["lock_contention", "overlapping_loads"]
RULE = ("seeded runs; a run = one product on simfs/local storage opened once, 4 actor sets "
        "(scenario in {same-variable, different-images, different-images-same-rows, "
        "pickled-copy, mixed, sweep = every actor walks over 2-5 images; a quarter of the products "
        "have 5-8 image files}; 2-3 loader actors (up to 5 on the many-image products) with 1-5 "
        "selections each) x 12 (quick) / 40 (thorough) seeded schedules each; the "
        "scheduler decides every switch at open/seek/read/close/lock-acquire points (modes: "
        "uniform random with a switch probability, PCT priorities, and <=3 forced line-level "
        "pre-emptions inside ceos_alos2 frames); each "
        "schedule is one evaluation; distinct key = (scenario, digest of the actor order at all "
        "decision points); the first %d (quick) / %d (thorough) runs are SYSTEMATIC instead: a tiny "
        "scenario (2 loaders, one short selection each) whose interleavings at the simulator's "
        "decision points are enumerated completely, depth-first over the scheduler's choice tree "
        "(cap 400 / 6000 schedules per run; counters systematic-sets-complete / -capped)"
        % (4, 48))
ASSUMPTIONS = [
    "threads are real Python threads parked and released one at a time; pre-emption happens only "
    "at simulator-owned points (every storage operation, every contended lock acquire, chosen "
    "line events in the thorough tier) - races inside a single bytecode-level step of numpy/"
    "xarray C code are not explored",
    "only selections whose sequential load succeeds are used",
    "lock-contention and overlapping-load probes are reported, never judged",
]


def n_runs(tier):
    return 320 if tier == "quick" else 3000


SYSTEMATIC_RUNS = {"quick": 4, "thorough": 48}


def generate(rng, tier, index):
    if index < SYSTEMATIC_RUNS[tier]:
        return _generate_systematic(rng, tier)
    many = rng.random() < 0.25
    # (memory:// hands out ONE shared file object per path - its reads and seeks are scheduling
    # points too)
    wp = world.gen_world_plan(rng, backends=("simfs", "simfs", "simfs_opt", "local", "memory"),
                              max_images=3, max_lines=16, max_pixels=8,
                              n_images=rng.randint(5, 8) if many else None)
    n_img = len(wp["images"])
    r = common.pick_rpc(rng, rng.choice(wp["images"])["lines"])
    sets = []
    for _ in range(4):
        scenario = rng.choice(["same-variable", "different-images", "different-images-same-rows",
                               "pickled-copy", "mixed", "second-open"]
                              + (["sweep", "sweep", "sweep"] if many else ["sweep"]))
        if scenario == "second-open" and wp["backend"] == "memory":
            # (memory:// hands out ONE file object per path: two trees with their own locks
            # cannot read one image at the same time there - the store's limitation)
            scenario = "pickled-copy"
        if scenario == "different-images-same-rows" and n_img < 2:
            scenario = "pickled-copy"
        if scenario == "different-images" and n_img < 2:
            scenario = "same-variable"
        n_act = rng.choice([2, 2, 3]) if not many else rng.choice([2, 3, 4, 5])
        img0 = rng.randrange(n_img)
        actors = []
        if scenario == "sweep":
            # every actor walks over several images (its own order), one selection each: handle /
            # buffer pools and per-file state see arrivals, departures and evictions
            for a in range(n_act):
                items = []
                for _ in range(rng.randint(2, 5)):
                    img = rng.randrange(n_img)
                    im = wp["images"][img]
                    items.append([img, rng.randrange(2),
                                  select.gen_selection(rng, im["lines"], im["pixels"])])
                actors.append({"items": items})
            sets.append({"scenario": scenario, "actors": actors, "fresh": rng.random() < 0.3})
            continue
        for a in range(n_act):
            if scenario == "same-variable":
                img, copy = img0, 0
            elif scenario in ("different-images", "different-images-same-rows"):
                img, copy = (img0 + a) % n_img, rng.randrange(2)
            elif scenario == "pickled-copy":
                img, copy = img0, a % 2
            elif scenario == "second-open":
                # copy 2 = a tree of the same product opened a second time by the same thread:
                # loads of one tree must not be disturbed by loads of the other
                img, copy = img0, (0, 2)[a % 2]
            else:
                img, copy = rng.randrange(n_img), rng.randrange(2)
            im = wp["images"][img]
            sels = [select.gen_selection(rng, im["lines"], im["pixels"])
                    for _ in range(rng.choice([1, 1, 2]))]
            if scenario == "different-images-same-rows" and actors:
                # the very same selections on another image (same geometry where the product has it)
                im0 = wp["images"][actors[0]["image"]]
                if (im0["lines"], im0["pixels"]) == (im["lines"], im["pixels"]):
                    sels = actors[0]["selections"]
            actors.append({"image": img, "copy": copy, "selections": sels})
        if rng.random() < 0.15 and wp["backend"] != "memory":
            # one more actor opens the same product again (other request size) while the others
            # load from the tree that is already open (not on memory://: fsspec hands out ONE file
            # object per path there, so any second open of a file - by whomever - rewinds the
            # object a load is reading from; that is the store's limitation and an open is not one
            # of the loads the property speaks about)
            actors.append({"image": img0, "copy": 0, "opener": common.pick_rpc(rng, wp["images"][img0]["lines"]),
                           "selections": []})
        if rng.random() < 0.25:
            # one more actor makes a pickled copy of the tree WHILE the others load, then loads
            # from its new copy
            im = wp["images"][img0]
            actors.append({"image": img0, "copy": 0, "pickler": True,
                           "selections": [select.gen_selection(rng, im["lines"], im["pixels"])]})
        sets.append({"scenario": scenario, "actors": actors, "fresh": rng.random() < 0.25})
    k = 12 if tier == "quick" else 40
    modes = ["random", "random", "random", "pct", "line"] if tier == "quick" else \
        ["random", "random", "pct", "line"]
    return {"world": wp, "rpc": r, "sets": sets, "schedules": k,
            "sched_seed": rng.randrange(2**31), "modes": modes,
            # when the copies are made: right after the open, or anew before every actor set -
            # i.e. after the tree has been loaded from (optionally after a warm-up load of every
            # image) - and whether copy 1 is a copy of the tree or a copy of a copy
            "pickle": rng.choice(["at-open", "per-set", "per-set", "per-set-warm"]),
            "copy_of_copy": rng.random() < 0.3,
            # cold starts: a restarted library, a freshly opened tree and the concurrent loads
            # as the very first loads of the process, pre-empted at line level; judged against
            # the truth model (nothing sequential has run that could serve as a reference)
            "cold": rng.randrange(2**31) if rng.random() < 0.3 else None,
            # the tree comes from an index cache (created first) in a third of the runs
            "with_cache": rng.random() < 0.4}


def _generate_systematic(rng, tier):
    """a tiny scenario (2 loaders, one short selection each) whose interleavings at the
    simulator's decision points are enumerated COMPLETELY (depth-first over the scheduler's choice
    tree, capped) instead of sampled"""
    wp = world.gen_world_plan(rng, backends=("simfs",), max_images=2, max_lines=4, max_pixels=3,
                              large=0.0, huge=0.0, n_images=rng.choice([1, 2]))
    n_img = len(wp["images"])
    scenario = rng.choice(["same-variable", "pickled-copy"] + (["different-images"] * 2
                                                              if n_img > 1 else []))
    actors = []
    for a in range(2):
        img = a % n_img if scenario == "different-images" else 0
        im = wp["images"][img]
        n = im["lines"]
        sel = {"kind": "isel", "rows": rng.choice([{"slice": [None, None, None]}, {"int": 0},
                                                   {"int": n - 1}, {"slice": [0, max(n // 2, 1), 1]},
                                                   {"slice": [None, None, -1]}])}
        actors.append({"image": img, "copy": (a % 2) if scenario == "pickled-copy" else 0,
                       "selections": [sel]})
    n0 = wp["images"][0]["lines"]
    return {"world": wp, "rpc": rng.choice([max(n0 // 2, 1), n0, 1024]),
            "sets": [{"scenario": scenario, "actors": actors}], "schedules": 0,
            "sched_seed": 0, "modes": ["random"],
            "systematic": 400 if tier == "quick" else 6000}


def _schedules(plan, si, budget, stats):
    """yields (j, scheduler, mode); the consumer runs the scheduler before asking for the next"""
    if plan.get("schedule") is not None:      # replay of one recorded schedule
        j = (plan.get("only") or [0, 0])[1]
        yield j, Sched(script=plan["schedule"], max_steps=budget), "script"
        return
    if plan.get("systematic"):
        stack = [[]]
        j = 0
        while stack and j < plan["systematic"]:
            prefix = stack.pop()
            sched = Sched(script=prefix, max_steps=budget)
            yield j, sched, "systematic"
            dec = sched.decisions
            for i in range(len(prefix), len(dec)):
                runnable, chosen = dec[i]
                for alt in runnable:
                    if alt != chosen:
                        stack.append([d[1] for d in dec[:i]] + [alt])
            j += 1
        key = "systematic-sets-complete" if not stack else "systematic-sets-capped"
        stats[key] = stats.get(key, 0) + 1
        return
    for j in range(plan["schedules"]):
        rng = random.Random(plan["sched_seed"] * 1000003 + si * 1009 + j)
        sched, mode = _sched_for(plan, rng, plan.get("schedule"), budget=budget)
        yield j, sched, mode


def _sched_for(plan, rng, script=None, budget=5000):
    """budget: scheduler steps allowed = a multiple of what the same loads needed one after the
    other (bounded liveness: concurrency must not multiply the work)"""
    if script is not None:
        return Sched(script=script, max_steps=budget), "script"
    mode = rng.choice(plan.get("modes", ["random"]))
    if mode == "random":
        return Sched(rng=rng, switch_p=rng.choice([1.0, 1.0, 0.5, 0.2]), max_steps=budget), mode
    if mode == "pct":
        return Sched(rng=rng, mode="pct", pct_depth=rng.choice([1, 2, 3]), est_steps=40,
                     max_steps=budget), mode
    pts = {rng.randrange(1, 260) for _ in range(3)}
    return Sched(rng=rng, switch_p=0.3, max_steps=budget, line_points=pts,
                 trace_prefix=boot.REPO + "/ceos_alos2/"), mode


def execute(plan):
    w = world.World(plan["world"])
    prod = w.product
    violations, keys, stats = [], [], {}

    def bump(k, n=1):
        stats[k] = stats.get(k, 0) + n

    evaluations = 0
    schedule_out = None
    try:
        try:
            if plan.get("with_cache"):
                w.open(create_cache=True, use_cache=False, records_per_chunk=plan["rpc"])
                tree = w.open(records_per_chunk=plan["rpc"])
            else:
                tree = w.open(use_cache=False, records_per_chunk=plan["rpc"])
            copies = {0: tree, 1: pickle.loads(pickle.dumps(tree))}
            if any(a.get("copy") == 2 for aset in plan["sets"] for a in aset["actors"]):
                copies[2] = w.open(records_per_chunk=plan["rpc"]) if plan.get("with_cache") \
                    else w.open(use_cache=False, records_per_chunk=plan["rpc"])
                bump("second-opens")
        except Exception as e:  # noqa: BLE001
            bump("setup-raised:" + type(e).__name__)
            return common.outcome(SIM, violations, keys, stats)
        only = plan.get("only")
        for si, aset in enumerate(plan["sets"]):
            if only is not None and only[0] != si:
                continue
            how = plan.get("pickle", "at-open")
            if how != "at-open" and si > 0 or how == "per-set-warm":
                try:
                    if how == "per-set-warm":
                        for name in prod.images:
                            tree["imagery"][prod.groups[name]]["data"].isel(rows=0).values
                    c1 = pickle.loads(pickle.dumps(tree))
                    if plan.get("copy_of_copy"):
                        c1 = pickle.loads(pickle.dumps(c1))
                    copies[1] = c1
                    bump("late-pickles")
                except Exception as e:  # noqa: BLE001
                    violations.append(Violation(ID, "load-raised", "pickling", {
                        "error": exc_text(e), "set": si}))
                    continue
            # sequential reference, selection by selection
            jobs = []
            solo_events = 0
            openers = [a["opener"] for a in aset["actors"] if a.get("opener") is not None]
            for a in aset["actors"]:
                if a.get("opener") is not None:
                    continue
                items = a.get("items") or [[a["image"], a["copy"], sel] for sel in a["selections"]]
                if a.get("pickler"):
                    items = [[i, "pickle-now", sel] for i, _, sel in items]
                good = []
                for img_k, copy_k, sel in items:
                    name = prod.images[img_k]
                    da = copies[0 if copy_k == "pickle-now" else copy_k]["imagery"][
                        prod.groups[name]]["data"]
                    # the single-threaded load also runs as a (lone) actor, so that a lock the
                    # load path takes twice shows up as a deadlock instead of hanging the harness
                    solo = Sched(script=[], max_steps=200000)
                    solo.spawn("S", lambda da=da, sel=sel: select.apply(da, sel).load().values)
                    m_solo = SIM.mark()
                    solo.run(wall_timeout=800)
                    solo_events += SIM.mark() - m_solo
                    if solo.deadlock or solo.budget:
                        violations.append(Violation(ID, "deadlock", "single-load", {
                            "selection": sel, "scenario": aset["scenario"],
                            "blocked": sorted(solo.blocked)}))
                    elif "S" in solo.err:
                        bump("selection-rejected-sequentially")
                    else:
                        ref_vals = np.array(solo.res["S"], copy=True)
                        # the same load in the thread that opened the tree: "single-threaded"
                        # must not depend on which thread it is
                        try:
                            direct = select.apply(da, sel).load().values
                            same = direct.shape == ref_vals.shape and np.array_equal(
                                bits_of(direct, prod.level), bits_of(ref_vals, prod.level))
                            detail = None
                        except Exception as e:  # noqa: BLE001
                            same, detail = False, exc_text(e)
                        if not same:
                            violations.append(Violation(ID, "result-differs-from-sequential",
                                                        "load-in-another-thread", {
                                "selection": sel, "scenario": aset["scenario"], "error": detail}))
                            continue
                        good.append(((img_k, copy_k), sel, ref_vals))
                if good:
                    jobs.append(good)
            if len(jobs) < 2:
                bump("actor-set-skipped")
                continue
            fresh = bool(aset.get("fresh")) and not plan.get("systematic")
            for j, sched, mode in _schedules(plan, si, 2000 + 10 * solo_events, stats):
                if only is not None and only[1] != j and not plan.get("systematic"):
                    continue
                trees = copies
                if fresh and j < 4:
                    # tree objects nobody has loaded from yet: whatever the library sets up on
                    # first use is set up by the concurrent loads themselves
                    try:
                        tf = w.open(use_cache=False, records_per_chunk=plan["rpc"])
                        trees = {0: tf, 1: pickle.loads(pickle.dumps(tf))}
                        if 2 in copies:
                            trees[2] = w.open(use_cache=False, records_per_chunk=plan["rpc"])
                        bump("fresh-trees")
                    except Exception as e:  # noqa: BLE001
                        violations.append(Violation(ID, "load-raised", "fresh-open", {
                            "error": exc_text(e), "set": si}))
                        break
                for ai, good in enumerate(jobs):
                    def work(good=good, trees=trees):
                        out = []
                        fresh_copy = None
                        for (img_k, copy_k), sel, _ in good:
                            if copy_k == "pickle-now":
                                if fresh_copy is None:
                                    fresh_copy = pickle.loads(pickle.dumps(trees[0]))
                                src = fresh_copy
                            else:
                                src = trees[copy_k]
                            da = src["imagery"][prod.groups[prod.images[img_k]]]["data"]
                            out.append(select.apply(da, sel).load().values)
                        return out
                    sched.spawn("L%d" % ai, work)
                for oi, o_rpc in enumerate(openers):
                    def reopen(o_rpc=o_rpc):
                        t_new = w.open(records_per_chunk=o_rpc) if plan.get("with_cache") \
                            else w.open(use_cache=False, records_per_chunk=o_rpc)
                        return [image_count(t_new)]
                    sched.spawn("O%d" % oi, reopen)
                mark = SIM.mark()
                try:
                    sched.run(wall_timeout=800)
                except HarnessHang:
                    raise
                evaluations += 1
                bump("schedules:" + mode)
                events = SIM.since(mark)
                overlap = _overlap(events)
                if sched.contention:
                    SIM.probe("lock_contention")
                if overlap:
                    SIM.probe("overlapping_loads")
                order = hashlib.sha256(",".join(sched.trace).encode()).hexdigest()[:10]
                keys.append(f"{aset['scenario']}|{order}")
                where = {"set": si, "schedule": j, "scenario": aset["scenario"], "mode": mode,
                         "actors": len(jobs)}
                site = aset["scenario"]
                bad = None
                if sched.deadlock:
                    bad = Violation(ID, "deadlock", site, dict(where, blocked=sorted(sched.blocked)))
                elif sched.budget:
                    bad = Violation(ID, "no-progress", site, dict(where, steps=sched.steps))
                else:
                    for ai, good in enumerate(jobs):
                        nm = "L%d" % ai
                        if nm in sched.err:
                            bad = Violation(ID, "load-raised", site, dict(
                                where, actor=nm, error=exc_text(sched.err[nm])))
                            break
                        res = sched.res.get(nm)
                        for (_, sel, ref), got in zip(good, res):
                            if got.shape != ref.shape or got.dtype != ref.dtype or \
                                    not np.array_equal(bits_of(got, prod.level),
                                                       bits_of(ref, prod.level)):
                                bad = Violation(ID, "result-differs-from-sequential", site, dict(
                                    where, actor=nm, selection=sel,
                                    got_shape=list(got.shape), want_shape=list(ref.shape)))
                                break
                        if bad:
                            break
                if bad is not None:
                    violations.append(bad)
                    if schedule_out is None:
                        schedule_out = {"only": [si, j], "schedule": list(sched.trace)}
        if plan.get("with_cache") and plan.get("schedule") is None and not violations \
                and w.backend != "memory":
            evaluations += _directed_reopen(plan, w, prod, tree, violations, keys, bump)
        if plan.get("cold") is not None and plan.get("schedule") is None and not violations:
            n_cold = _cold_starts(plan, w, prod, violations, keys, bump)
            evaluations += n_cold
        extra = {"evaluations": max(evaluations, 1)}
        if schedule_out and plan.get("schedule") is None:
            extra["plan_update"] = schedule_out
        return common.outcome(SIM, violations, keys, stats, extra)
    finally:
        w.destroy()


def image_count(tree):
    return len(tree["imagery"].children)


def _expected(prod, name, sel):
    """flat indices (into the image) of the samples the selection picks, in result order"""
    import xarray as xr

    twin = xr.DataArray(np.arange(prod.truth[name].shape[0] * prod.truth[name].shape[1]).reshape(
        prod.truth[name].shape[:2]), dims=("rows", "columns"))
    return select.apply(twin, sel).values      # flat indices of the selected samples


def _directed_reopen(plan, w, prod, tree, violations, keys, bump):
    """a load is parked after its k-th file operation, the product is opened again (index cache,
    another request size) by another actor, then the load goes on: for k = 2..6"""
    name = prod.images[0]
    n = prod.truth[name].shape[0]
    da = tree["imagery"][prod.groups[name]]["data"]
    sel = {"kind": "isel", "rows": {"slice": [None, None, None]}}
    try:
        ref = np.array(select.apply(da, sel).load().values, copy=True)
    except Exception:  # noqa: BLE001
        return 0
    other = [r for r in (1, 2, 3, max(n // 2, 1), n, 1024) if r != plan["rpc"]]
    done = 0
    for k in (2, 3, 4, 5, 6):
        o_rpc = other[k % len(other)]
        # the opening thread "O" opens the product (through the cache), the loader "L" loads from
        # that tree in its own thread; as soon as L has done k file operations, O opens the
        # product again with another request size (fsspec caches filesystem instances per thread:
        # only a re-open by the thread that opened the first tree meets the same objects)
        sched = Sched(script=["O"] * 4000, max_steps=200000)
        box = {}
        mark = SIM.mark()

        def l_ops():
            return sum(1 for e in SIM.since(mark) if e[1] == "L" and e[2] in ("open", "seek", "read"))

        def opener(o_rpc=o_rpc, k=k):
            box["tree"] = w.open(records_per_chunk=plan["rpc"])
            sched.wait_until(lambda: l_ops() >= k or "L" in sched.done)
            return image_count(w.open(records_per_chunk=o_rpc))

        def loader():
            sched.wait_until(lambda: "tree" in box)
            da_l = box["tree"]["imagery"][prod.groups[name]]["data"]
            return select.apply(da_l, sel).load().values

        sched.spawn("O", opener)
        sched.spawn("L", loader)
        sched.run(wall_timeout=800)
        done += 1
        bump("directed-reopens")
        keys.append(f"directed-reopen|{k}")
        where = {"parked_after": k, "reopen_rpc": o_rpc, "rpc": plan["rpc"]}
        bad = None
        if sched.deadlock:
            bad = Violation(ID, "deadlock", "load-vs-reopen", dict(where, blocked=sorted(sched.blocked)))
        elif sched.budget:
            bad = Violation(ID, "no-progress", "load-vs-reopen", where)
        elif "L" in sched.err:
            bad = Violation(ID, "load-raised", "load-vs-reopen", dict(where, error=exc_text(sched.err["L"])))
        elif "O" in sched.err:
            bump("reopen-raised:" + type(sched.err["O"]).__name__)
        else:
            got = sched.res["L"]
            if got.shape != ref.shape or not np.array_equal(bits_of(got, prod.level),
                                                            bits_of(ref, prod.level)):
                bad = Violation(ID, "result-differs-from-sequential", "load-vs-reopen", where)
        if bad is not None:
            violations.append(bad)
            break
    return done


def _cold_starts(plan, w, prod, violations, keys, bump):
    """restart, open, and let the concurrent loads be the first loads of the process"""
    rng = random.Random(plan["cold"])
    n_done = 0
    for j in range(plan.get("cold_n", 5)):
        world.restart()
        try:
            tree = w.open(use_cache=False, records_per_chunk=plan["rpc"])
            trees = {0: tree, 1: pickle.loads(pickle.dumps(tree))}
        except Exception as e:  # noqa: BLE001
            violations.append(Violation(ID, "load-raised", "cold-open", {"error": exc_text(e)}))
            return n_done
        # two or three loaders on DIFFERENT images where possible (same layout is the rule for the
        # polarisations of one product), whole lines
        n_img = len(prod.images)
        n_act = 2 if rng.random() < 0.7 else 3
        jobs = []
        for a in range(n_act):
            img_k = a % n_img
            name = prod.images[img_k]
            n = prod.truth[name].shape[0]
            lo = int(rng.random() * n)
            sel = {"kind": "isel", "rows": {"slice": [lo, min(lo + 1 + int(rng.random() * 3), n),
                                                      None]}}
            jobs.append((img_k, a % 2 if rng.random() < 0.3 else 0, sel))
        pts = {1 + int(rng.random() * 140) for _ in range(6)}
        sched = Sched(rng=random.Random(plan["cold"] + j), switch_p=0.3, max_steps=200000,
                      line_points=pts, trace_prefix=boot.REPO + "/ceos_alos2/")
        for ai, (img_k, copy_k, sel) in enumerate(jobs):
            def work(img_k=img_k, copy_k=copy_k, sel=sel):
                da = trees[copy_k]["imagery"][prod.groups[prod.images[img_k]]]["data"]
                return select.apply(da, sel).load().values
            sched.spawn("L%d" % ai, work)
        sched.run(wall_timeout=800)
        n_done += 1
        bump("cold-starts")
        order = hashlib.sha256(",".join(sched.trace).encode()).hexdigest()[:10]
        keys.append(f"cold|{order}")
        where = {"cold_start": j, "actors": len(jobs)}
        bad = None
        if sched.deadlock:
            bad = Violation(ID, "deadlock", "cold-start", dict(where, blocked=sorted(sched.blocked)))
        elif sched.budget:
            bad = Violation(ID, "no-progress", "cold-start", dict(where, steps=sched.steps))
        else:
            for ai, (img_k, copy_k, sel) in enumerate(jobs):
                nm = "L%d" % ai
                if nm in sched.err:
                    bad = Violation(ID, "load-raised", "cold-start", dict(
                        where, actor=nm, error=exc_text(sched.err[nm])))
                    break
                name = prod.images[img_k]
                got = sched.res[nm]
                flat = _expected(prod, name, sel)
                truth = prod.truth[name]
                want = truth.reshape((-1,) + truth.shape[2:])[flat.reshape(-1)].reshape(
                    flat.shape + truth.shape[2:])
                gb = bits_of(got, prod.level)
                if gb is None or gb.shape != want.shape or not np.array_equal(gb, want):
                    bad = Violation(ID, "result-differs-from-sequential", "cold-start", dict(
                        where, actor=nm, selection=sel, got_shape=list(np.shape(got)),
                        want_shape=list(flat.shape)))
                    break
        if bad is not None:
            violations.append(bad)
            return n_done
    return n_done


def _overlap(events):
    open_by = set()
    for ev in events:
        actor, kind = ev[1], ev[2]
        if kind == "open":
            open_by.add(actor)
            if len(open_by) >= 2:
                return True
        elif kind == "close":
            open_by.discard(actor)
    return False


def shrink(plan):
    sch = plan.get("schedule")
    if sch:
        # fewer forced choices: None = "keep running the current actor"
        idx = [k for k, v in enumerate(sch) if v is not None]
        step = max(len(idx) // 2, 1)
        while step >= 1:
            for s in range(0, len(idx), step):
                cand = list(sch)
                for k in idx[s:s + step]:
                    cand[k] = None
                if cand != sch:
                    yield common.with_(plan, schedule=cand)
            if step == 1:
                break
            step //= 2
    for wp in world.shrink_world(plan["world"]):
        if len(wp["images"]) == len(plan["world"]["images"]):
            yield common.with_(plan, world=wp)
