"""Loader workload shared by C02 (indexing equivalence) and C11 (bounded, grouped reads)."""
import math

import numpy as np
import xarray as xr
from xarray.backends import BackendArray
from xarray.core import indexing

from .. import world
from ..oracle import Violation, bits_of, exc_text, first_mismatch
from ..sim import SIM
from . import common, select


class ControlBackend(BackendArray):
    """what xarray itself does with a BASIC-indexing backend over a NumPy array"""

    def __init__(self, arr):
        self.arr = arr
        self.shape = arr.shape
        self.dtype = arr.dtype

    def __getitem__(self, key):
        return indexing.explicit_indexing_adapter(
            key, self.shape, indexing.IndexingSupport.BASIC, lambda k: self.arr[k])


def make_control(twin):
    var = xr.Variable(twin.dims, indexing.LazilyIndexedArray(ControlBackend(twin.values)),
                      twin.attrs)
    return xr.DataArray(var, coords=twin.coords, name=twin.name)


def generate(rng, tier, index, backends):
    wp = world.gen_world_plan(rng, backends=backends, max_images=3,
                              big=(tier == "thorough"))
    k = rng.randrange(len(wp["images"]))
    n, p = wp["images"][k]["lines"], wp["images"][k]["pixels"]
    r = common.pick_rpc(rng, n)
    n_sel = 10 if tier == "quick" else 24
    sels = [select.gen_selection(rng, n, p) for _ in range(n_sel)]
    # the same lines again with another column window (tiled access): per-rows memos are hit
    for _ in range(3):
        src = rng.choice(sels)
        rows_ix = src.get("rows") if src["kind"] == "isel" else (
            src["key"][0] if src["kind"] == "getitem" else None)
        again = {"kind": "isel", "columns": select.gen_index(rng, p)}
        if rows_ix is not None:
            again["rows"] = rows_ix
        sels.insert(rng.randrange(len(sels) + 1), again)
    if wp.get("prefix", {}).get("line_numbers", "normal") != "normal":
        # labels are not 1..n here: label-based selections are replaced by positional ones (the
        # request oracle needs to know which lines a selection touches)
        sels = [x if x["kind"] != "sel" else {"kind": "isel", "rows": select.gen_index(rng, n)}
                for x in sels]
    # one line asked for in different ways, back to back (integer / one-row slice / one-row list)
    for _ in range(2):
        r0 = rng.randrange(n)
        forms = [{"int": r0}, {"slice": [r0, r0 + 1, None]}, {"arr": [r0]}, {"int": r0 - n}]
        rng.shuffle(forms)
        pos = rng.randrange(len(sels) + 1)
        for k_f, f in enumerate(forms[:rng.randint(2, 4)]):
            twin_sel = {"kind": "isel", "rows": f}
            if rng.random() < 0.4:
                twin_sel["columns"] = select.gen_index(rng, p)
            sels.insert(pos + k_f, twin_sel)
    # zooming out: a window, then wider windows that contain it (same or neighbouring groups)
    if n >= 4 and rng.random() < 0.5:
        a = rng.randrange(1, n - 1)
        b = min(a + rng.randint(1, 3), n)
        pos = rng.randrange(len(sels) + 1)
        for k_z in range(3):
            lo, hi = max(a - k_z * rng.randint(1, 2), 0), min(b + k_z * rng.randint(1, 3), n)
            sels.insert(pos + k_z, {"kind": "isel", "rows": {"slice": [lo, hi, None]}})
    scan = []
    if n >= 3 and rng.random() < 0.6:
        # sequential reading: 3-6 consecutive loads, each starting right after the previous one
        # (line by line or block by block) - kept together at the end of the workload
        b = rng.choice([1, 1, 2, 3, max(n // 4, 1)])
        a = rng.randrange(0, max(n - 3 * b, 1))
        for j in range(rng.randint(3, 6)):
            lo, hi = a + j * b, a + (j + 1) * b
            if lo >= n:
                break
            rows_ix = {"int": lo} if b == 1 and rng.random() < 0.5 else {"slice": [lo, hi, None]}
            scan.append({"kind": "isel", "rows": rows_ix})
    if n * p >= 200000:
        # big files: rows that are far apart in the file (strides of a tenth to all of the lines)
        for step in (max(n // 2, 2), max(n // 3, 2), max(n // 10, 2), max(n - 1, 2)):
            sels.append({"kind": "isel", "rows": {"slice": [rng.choice([None, 0, 1, 3]), None,
                                                            step * rng.choice([1, 1, -1])]}})
    sels += scan
    enum = None
    if n <= 4 and p <= 4 and rng.random() < (0.5 if tier == "quick" else 1.0):
        # quick: a seeded sample of the complete int/slice family, thorough: all of it
        enum = {"axis": rng.choice(["rows", "rows", "columns"]),
                "sample": 150 if tier == "quick" else None, "seed": rng.randrange(2**31)}
    # transient storage errors during a few of the loads (recorded back-ends): the n-th read
    # request of that load on the image file fails once with EIO
    load_faults = {}
    if rng.random() < 0.3:
        for _ in range(rng.randint(1, 4)):
            load_faults[str(rng.randrange(len(sels)))] = rng.choice([0, 0, 1, 1, 2, 3])
    return {"world": wp, "rpc": r, "image": k, "selections": sels, "enumerate": enum,
            "scribble_results": rng.random() < 0.5, "load_faults": load_faults,
            "create_cache": rng.random() < 0.3,
            # the selections are applied to a COPY of the lazy variable (pickle round trip,
            # deepcopy of the tree, DataArray.copy): a copy is the same lazy image
            "via": rng.choice(["direct"] * 6 + ["pickle", "deepcopy-tree", "da-copy",
                                                "pickle-tree"]),
            # the image file's metadata changes (same bytes, newer mtime) before this selection
            "touch_before": rng.randrange(len(sels)) if rng.random() < 0.25 else None}


def _same(res, ref, level, full=False):
    """None if the two loaded DataArrays agree in shape, dims, coords, dtype and values.

    Coordinates are compared variable by variable with NumPy (dims, dtype, values with
    NaN == NaN, attrs); with ``full`` xarray's own ``identical`` is consulted as well."""
    from xarray.core.utils import dict_equiv

    from ..oracle import values_equal

    if res.dims != ref.dims:
        return f"dims {res.dims} vs {ref.dims}"
    if res.shape != ref.shape:
        return f"shape {res.shape} vs {ref.shape}"
    if res.dtype.newbyteorder("=") != ref.dtype.newbyteorder("="):
        return f"dtype {res.dtype} vs {ref.dtype}"
    ca, cb = res.coords.variables, ref.coords.variables
    if sorted(ca) != sorted(cb):
        return f"coords {sorted(ca)} vs {sorted(cb)}"
    for c in cb:
        va, vb = ca[c], cb[c]
        if va.dims != vb.dims or va.dtype != vb.dtype or va.shape != vb.shape:
            return f"coordinate {c}: {va.dims}{va.shape}{va.dtype} vs {vb.dims}{vb.shape}{vb.dtype}"
        if not values_equal(np.asarray(va.values), np.asarray(vb.values)):
            return f"coordinate {c} values differ"
        if not dict_equiv(va.attrs, vb.attrs):
            return f"coordinate {c} attrs differ"
    a, b = np.ascontiguousarray(res.values), np.ascontiguousarray(ref.values)
    ba, bb = bits_of(a, level), bits_of(b, level)
    if ba is None or bb is None:
        return f"unexpected dtype {a.dtype}"
    if not np.array_equal(ba, bb):
        return "values differ: " + str(first_mismatch(ba, bb))
    if res.name != ref.name or not dict_equiv(res.attrs, ref.attrs):
        return "name/attrs differ"
    if full and not res.identical(ref):
        return "DataArray.identical is False"
    return None


def open_time_requests(events, image_base):
    """read requests (offset, size) on the given file in event order"""
    out = []
    for ev in events:
        _, _, kind, f = ev[:4]
        if not isinstance(f, str) or f.rsplit("/", 1)[-1] != image_base:
            continue
        if kind == "read":
            out.append((ev[4], ev[5]))
        elif kind == "cat":
            out.append((ev[4] or 0, -1 if ev[5] is None else ev[5] - (ev[4] or 0)))
    return out


def execute(plan, props):
    """props: subset of {"C02", "C11"}"""
    w = world.World(plan["world"])
    prod = w.product
    r = plan["rpc"]
    violations = []
    keys = []
    stats = {}

    def bump(k, n=1):
        stats[k] = stats.get(k, 0) + n

    try:
        name = prod.images[plan["image"]]
        grp = prod.groups[name]
        truth = prod.truth[name]
        n, p = truth.shape[:2]
        fsize = len(prod.files[name])
        ext = prod.extents[name]
        r_eff = min(r, n)
        rel = common.rpc_relation(n, r)
        try:
            m0 = SIM.mark()
            tree = w.open(use_cache=False, records_per_chunk=r,
                          create_cache=True if plan.get("create_cache") else None)
            open_events = SIM.since(m0)
            twin_tree = w.open(use_cache=False, records_per_chunk=r)
            da = tree["imagery"][grp]["data"]
            via = plan.get("via", "direct")
            if via != "direct":
                import copy
                import pickle

                if via == "pickle":
                    da = pickle.loads(pickle.dumps(da))
                elif via == "pickle-tree":
                    da = pickle.loads(pickle.dumps(tree))["imagery"][grp]["data"]
                elif via == "deepcopy-tree":
                    da = copy.deepcopy(tree)["imagery"][grp]["data"]
                else:
                    da = da.copy()
                bump("via:" + via)
            twin = twin_tree["imagery"][grp]["data"].load()
        except Exception as e:  # noqa: BLE001 - C01/C18 territory, not judged here
            bump("setup-raised:" + type(e).__name__)
            return common.outcome(SIM, violations, keys, stats)
        tb = bits_of(twin.values, prod.level)
        if tb is None or tb.shape != truth.shape or not np.array_equal(tb, truth):
            # the full load does not equal the file (C01's business); C02 is relational - the
            # reference is "the same operation on the fully loaded image", whatever that holds
            bump("twin-differs-from-file")
            if tb is None or tb.shape != truth.shape:
                return common.outcome(SIM, violations, keys, stats)
        control = make_control(twin)

        # ---------------------------------------------------------------- C11 open-time clause
        if "C11" in props and w.backend in world.RECORDED:
            for img in prod.images:
                ni = prod.truth[img].shape[0]
                size_i = len(prod.files[img])
                reqs = open_time_requests(open_events, img)
                limit = 1 + math.ceil(ni / r)
                site = f"open:{common.rpc_relation(ni, r)}"
                keys.append(f"open|{w.backend}|{common.rpc_relation(ni, r)}|{prod.level}")
                if len(reqs) > limit:
                    violations.append(Violation("C11", "open-too-many-requests", site, {
                        "requests": len(reqs), "limit": limit, "lines": ni, "rpc": r,
                        "first": reqs[:6]}))
                pos = 0
                for off, size in reqs:
                    end = size_i if size < 0 else off + size
                    if off < pos:
                        violations.append(Violation("C11", "open-not-front-to-back", site, {
                            "offset": off, "already_read_to": pos, "lines": ni, "rpc": r,
                            "requests": reqs[:8]}))
                        break
                    if off < 0 or end > size_i:
                        violations.append(Violation("C11", "open-read-outside-file", site, {
                            "offset": off, "size": size, "file_size": size_i}))
                        break
                    pos = end

        # ---------------------------------------------------------------- selections
        sels = list(plan["selections"])
        if plan.get("enumerate"):
            en = plan["enumerate"]
            axis = en["axis"]
            family = select.enumerate_int_slice(n if axis == "rows" else p)
            if en.get("sample") and en["sample"] < len(family):
                import random

                family = random.Random(en["seed"]).sample(family, en["sample"])
            else:
                bump("complete-int-slice-families")
            for ix in family:
                sels.append({"kind": "isel", axis: ix})
        kept = []
        for k_sel, sel in enumerate(sels):
            cls = select.classify(sel, n, p)
            try:
                want = select.apply(control, sel).load()
            except Exception as e:  # noqa: BLE001 - xarray rejects it for any BASIC backend
                bump("outside-property")
                bump("outside:" + cls)
                if "C11" in props and w.backend in world.RECORDED:
                    # no reference value exists - but whatever the lazy load does (raise or
                    # return), the requests it issues are still bound by the rule
                    mark = SIM.mark()
                    try:
                        select.apply(da, sel).load()
                    except Exception:  # noqa: BLE001
                        pass
                    violations.extend(check_load_events(SIM.since(mark), sel, cls + ":rejected",
                                                        name, n, r_eff, ext, fsize, rel))
                continue
            try:
                eager = select.apply(twin, sel)
            except Exception:  # noqa: BLE001
                eager = None
                bump("eager-rejects")
            if eager is not None and _same(want, eager, prod.level) is not None:
                # xarray's own lazy machinery disagrees with NumPy for *any* BASIC backend
                # (seen: out-of-range negative-step slices); no backend could satisfy both
                bump("outside-property")
                bump("control-disagrees-with-eager:" + cls)
                continue
            bump("selections")
            if plan.get("touch_before") == k_sel and w.backend in world.LOCAL:
                w.touch_images()
                bump("touched-before-load")
            nth_fault = (plan.get("load_faults") or {}).get(str(k_sel))
            faulted = nth_fault is not None and w.backend in world.RECORDED
            if faulted:
                SIM.read_fault = {"file": name, "nth": nth_fault}
            mark = SIM.mark()
            try:
                got = select.apply(da, sel).load()
                err = None
            except Exception as e:  # noqa: BLE001
                got, err = None, e
            finally:
                fired = bool(faulted and SIM.read_fault and SIM.read_fault.get("fired"))
                SIM.read_fault = None
            load_events = SIM.since(mark)
            returned_despite_fault = fired and err is None
            if fired:
                # under an injected read error a load may fail - it must never return wrong data;
                # and the same selection asked again (no fault) must be right
                bump("loads-under-eio")
                cls = cls + ":eio"
                if err is not None:
                    bump("loads-under-eio-raised")
                    try:
                        got = select.apply(da, sel).load()
                        err = None
                        cls = cls + "-retry"
                    except Exception as e:  # noqa: BLE001
                        got, err = None, e
                        cls = cls + "-retry"
            keys.append(f"{cls}|{rel}|{prod.level}")
            if "C02" in props:
                if err is not None:
                    violations.append(Violation("C02", "lazy-raised", cls, {
                        "selection": sel, "error": exc_text(err), "shape": [n, p], "rpc": r}))
                else:
                    why = _same(got, want, prod.level, full=(k_sel < 4))
                    if why is not None:
                        violations.append(Violation("C02", "mismatch", cls, {
                            "selection": sel, "why": why, "shape": [n, p], "rpc": r}))
                    elif plan.get("scribble_results") and k_sel % 2 == 1:
                        # the caller owns what it was given: it changes the values in place
                        # (calibration of a tile); later selections must not see that
                        try:
                            vals = got.values
                            if vals.size and vals.flags.writeable:
                                vals[...] = vals + 1
                                bump("results-modified-in-place")
                        except Exception:  # noqa: BLE001 - read-only result: nothing to do
                            pass
                    elif len(kept) < 8 and got.size:
                        kept.append((cls, sel, got, want))
            if "C11" in props and w.backend in world.RECORDED and err is None and not fired:
                violations.extend(check_load_events(load_events, sel, cls, name, n, r_eff, ext,
                                                    fsize, rel))
            elif "C11" in props and w.backend in world.RECORDED and returned_despite_fault:
                # the storage failed one request and the load returned all the same (the library
                # asked again by itself): the request that FAILED carried no data and is not
                # counted; everything that was served is held to the rule as usual
                bump("loads-returned-despite-fault")
                served = [ev for i, ev in enumerate(load_events)
                          if not (i + 1 < len(load_events) and load_events[i + 1][2] == "eio")
                          and ev[2] != "eio"]
                violations.extend(check_load_events(served, sel, cls + ":self-retried", name, n,
                                                    r_eff, ext, fsize, rel))
        if "C02" in props:
            # results handed out earlier must still hold after the later reads through the same
            # variable (a result that aliases a reused buffer changes behind the caller's back)
            for cls, sel, got, want in kept:
                why = _same(got, want, prod.level)
                bump("retained-results-rechecked")
                if why is not None:
                    violations.append(Violation("C02", "result-changed-after-later-reads", cls, {
                        "selection": sel, "why": why, "shape": [n, p], "rpc": r}))
                    break
        return common.outcome(SIM, violations, keys, stats)
    finally:
        w.destroy()


def check_load_events(events, sel, cls, image, n, r_eff, ext, fsize, rel):
    """C11 load-time clause over the recorded requests of one load"""
    out = []
    rows = select.selected_rows(sel, n)
    site = cls
    touched = {}
    for ev in events:
        _, _, kind, f = ev[:4]
        base = f.rsplit("/", 1)[-1] if isinstance(f, str) else str(f)
        if kind in ("blocked", "stat", "info"):   # waiting / existence probes are not reads
            continue
        if base != image:
            out.append(Violation("C11", "load-touches-other-file", site, {
                "event": [kind, base], "selection": sel}))
            continue
        if kind == "read":
            off, size = ev[4], ev[5]
        elif kind == "cat":
            off = ev[4] or 0
            size = -1 if ev[5] is None else ev[5] - off
        else:
            continue
        end = fsize if size < 0 else off + size
        if off < 0 or end > fsize:
            out.append(Violation("C11", "load-read-outside-file", site, {
                "offset": off, "size": size, "file_size": fsize, "selection": sel}))
            continue
        if size == 0:
            continue
        # which group does it fall into?
        g = None
        for gi in range(math.ceil(n / r_eff)):
            lo = ext[gi * r_eff][0]
            hi = ext[min((gi + 1) * r_eff, n) - 1][2]
            if lo <= off and end <= hi:
                g = gi
                break
        if g is None:
            out.append(Violation("C11", "load-read-spans-groups", site, {
                "offset": off, "size": size, "rpc": r_eff, "lines": n, "selection": sel}))
            continue
        touched[g] = touched.get(g, 0) + 1
    for g, cnt in touched.items():
        if cnt > 1:
            out.append(Violation("C11", "load-repeated-group-read", site, {
                "group": g, "reads": cnt, "rpc": r_eff, "lines": n, "selection": sel}))
            break
    if rows is not None:
        if rows:
            lo, hi = min(rows) // r_eff, max(rows) // r_eff
            for g in touched:
                if not lo <= g <= hi:
                    out.append(Violation("C11", "load-read-outside-span", site, {
                        "group": g, "span_groups": [lo, hi], "rpc": r_eff, "selection": sel}))
                    break
        else:
            # no line selected: every group lies outside the (empty) span
            for g in touched:
                out.append(Violation("C11", "load-read-outside-span", site, {
                    "group": g, "span_groups": [], "rpc": r_eff, "selection": sel}))
                break
    return out


def shrink(plan):
    sels = plan["selections"]
    if plan.get("enumerate"):
        yield common.with_(plan, enumerate=None)
    if len(sels) > 1:
        half = len(sels) // 2
        yield common.with_(plan, selections=sels[:half])
        yield common.with_(plan, selections=sels[half:])
        for k in range(len(sels)):
            yield common.with_(plan, selections=sels[:k] + sels[k + 1:])
    imgs = plan["world"]["images"]
    if len(imgs) > 1:
        yield common.with_(plan, world=common.with_(plan["world"], images=[imgs[plan["image"]]]),
                           image=0)
    for wp in world.shrink_world(plan["world"]):
        if len(wp["images"]) == len(imgs):
            yield common.with_(plan, world=wp)
    for r in (1, 2):
        if plan["rpc"] != r:
            yield common.with_(plan, rpc=r)
