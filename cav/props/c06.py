"""C06 records_per_chunk never changes what is read - relational check inside one world
(DESIGN 3.1)."""
from .. import world
from ..oracle import Violation, exc_text, image_vars, tree_diff
from ..sim import SIM
from . import common, select

ID = "C06"
LEVEL = "exploration"
RULE = ("seeded runs; a run = product x back-end x 2-4 opens with different records_per_chunk "
        "(uncached; in 'cached' runs the first open creates the index with create_cache=True and the "
        "others read through it); every tree must be identical (DataTree.identical + dtypes + "
        "loaded pixels) to the first one and advertise preferred_chunksizes.rows == min(r, lines); "
        "distinct key = (relation of r_a to N, relation of r_b to N, cached?, level)")
ASSUMPTIONS = [
    "purely relational (differential) oracle: a decoding bug that is the same for every r is not "
    "reported here",
    "if the cache-producing open raises, the run continues uncached (cache creation is judged by "
    "C07/C09/C10) and is counted under 'cache-unavailable'",
]


def n_runs(tier):
    return 480 if tier == "quick" else 8000


def generate(rng, tier, index):
    wp = world.gen_world_plan(rng, big=(tier == "thorough"), max_images=4, giant=0.008)
    n = rng.choice(wp["images"])["lines"]
    choices = common.rpc_choices(n)
    rng.shuffle(choices)
    rpcs = []
    for _, r in choices:
        if r not in rpcs:
            rpcs.append(r)
    rpcs = rpcs[:rng.randint(2, 4)]
    # the same short sequence of partial reads is done on every tree before the comparison: "what
    # is read" must not depend on r for any read sequence, not only for one full load
    k = rng.randrange(len(wp["images"]))
    im = wp["images"][k]
    pre = [select.gen_selection(rng, im["lines"], im["pixels"])
           for _ in range(rng.choice([0, 1, 2, 3]))]
    # canonical partial reads in front of the random ones: strided line selections whose start is
    # not a multiple of the step (they cross request-size groups at changing phases), forwards
    # and backwards (detection of seeded-C06-agent14 depended on the seed without them)
    if im["lines"] >= 3:
        pre = [{"kind": "isel", "rows": {"slice": [1, None, 2]}},
               {"kind": "isel", "rows": {"slice": [2, None, 3]}},
               {"kind": "isel", "rows": {"slice": [None, 0, -2]}}] + pre
    plan = {"world": wp, "rpcs": rpcs, "cached": rng.random() < 0.4, "pre_image": k,
            "pre_reads": pre,
            "concurrent_opens": rng.randrange(1, 2**31) if rng.random() < 0.35 else None}
    if rng.random() < 0.15:
        # a companion product of the OTHER record type whose line records have exactly the same
        # length (544 + 8 p = 192 + 2 q), opened and loaded in the same interpreter first with
        # the same request sizes: whatever the library keeps between products must not leak
        p1 = rng.randint(1, 8)
        q = 176 + 4 * p1
        lines = rng.randint(2, 12)
        main_is_11 = wp["level"] == "1.1"
        for im in wp["images"]:
            im.update(lines=lines, pixels=p1 if main_is_11 else q)
        comp = world.gen_world_plan(rng, backends=(wp["backend"],), max_images=2, large=0.0,
                                    huge=0.0, level="1.5" if main_is_11 else "1.1")
        for im in comp["images"]:
            im.update(lines=lines, pixels=q if main_is_11 else p1)
        comp["dirs"] = ["companion"]
        plan["companion"] = comp
        n2 = lines
        plan["rpcs"] = [r for r in dict.fromkeys(rpcs + [max(n2 // 2, 1), n2])][:4]
    if rng.random() < 0.2:
        # a creating open that is interrupted by a storage error in the middle of an image's
        # metadata pass (its n-th read of that image fails), with one request size; the opens that
        # follow use other request sizes and must not inherit anything from it
        plan["interrupted_first"] = {"image": rng.randrange(len(wp["images"])),
                                     "nth": rng.choice([1, 2, 2, 3, 4]),
                                     "rpc": rng.choice([1, 2, 3, max(n // 2, 1)])}
    return plan


def execute(plan):
    w = world.World(plan["world"])
    prod = w.product
    violations, keys, stats = [], [], {}
    try:
        if plan.get("companion"):
            try:
                w2 = world.World(plan["companion"], fresh=False, slot=1)
                for r in plan["rpcs"]:
                    t2 = w2.open(use_cache=False, records_per_chunk=r)
                    for _, da in image_vars(t2):
                        da.values
                stats["companion-products"] = 1
            except Exception as e:  # noqa: BLE001 - the companion is not what is judged here
                stats["companion-raised:" + type(e).__name__] = 1
        itr = plan.get("interrupted_first")
        if itr and w.backend in world.RECORDED:
            SIM.read_fault = {"file": prod.images[itr["image"]], "nth": itr["nth"]}
            try:
                w.open(create_cache=True, records_per_chunk=itr["rpc"])
                stats["interrupted-open-completed"] = 1
            except Exception:  # noqa: BLE001 - the storage error (or what the library made of it)
                stats["interrupted-open-raised"] = 1
            finally:
                SIM.read_fault = None
        trees = []
        cached = plan["cached"]
        last_opts = None
        for k, r in enumerate(plan["rpcs"]):
            opts = {"records_per_chunk": r}
            if cached and k == 0:
                opts.update(use_cache=False, create_cache=True)
            elif cached and k == len(plan["rpcs"]) - 1:
                # the last one parses the image itself: trees that all come from one index would
                # agree with each other whatever the index says
                opts.update(use_cache=False)
            elif cached:
                opts.update(use_cache=True)
            else:
                opts.update(use_cache=False)
            try:
                t = w.open(**opts)
            except Exception as e:  # noqa: BLE001
                if cached and k == 0 and plan.get("interrupted_first"):
                    # a creating open that fails only because an EARLIER creating open with another
                    # request size was interrupted: what can be opened depends on the request size
                    violations.append(Violation(ID, "open-raised", "after-interrupted-creation:"
                                                + type(e).__name__, {
                        "rpc": r, "error": exc_text(e), "interrupted": plan["interrupted_first"]}))
                    cached = False
                    try:
                        t = w.open(use_cache=False, records_per_chunk=r)
                    except Exception:  # noqa: BLE001
                        t = None
                    if t is not None:
                        trees.append((r, t))
                    continue
                if cached and k == 0:
                    stats["cache-unavailable"] = stats.get("cache-unavailable", 0) + 1
                    cached = False
                    try:
                        t = w.open(use_cache=False, records_per_chunk=r)
                    except Exception as e2:  # noqa: BLE001
                        e = e2
                        t = None
                else:
                    t = None
                if t is None:
                    violations.append(Violation(ID, "open-raised", type(e).__name__, {
                        "rpc": r, "error": exc_text(e), "options": opts}))
                    continue
            trees.append((r, t))
            last_opts = (r, dict(opts))
        if w.plan.get("share_option_dicts") and trees and last_opts is not None:
            # the caller opens once more with the options it used last (the very same dict object,
            # see World.open): the request size it names still is the request size
            try:
                trees.append((last_opts[0], w.open(**last_opts[1])))
                stats["second-use-of-an-options-dict"] = 1
            except Exception as e:  # noqa: BLE001
                violations.append(Violation(ID, "open-raised", "second-use-of-options:"
                                            + type(e).__name__, {
                    "rpc": last_opts[0], "error": exc_text(e), "options": last_opts[1]}))
        # partial reads, identical on every tree
        import numpy as np

        from ..oracle import bits_of

        pre_results = []
        name_k = prod.images[plan.get("pre_image", 0)]
        for r, t in trees:
            res = []
            for sel in plan.get("pre_reads", []):
                try:
                    v = select.apply(t["imagery"][prod.groups[name_k]]["data"], sel).load().values
                    res.append(("ok", v.shape, str(v.dtype),
                                bits_of(v, prod.level).tobytes() if bits_of(v, prod.level)
                                is not None else None))
                except Exception as e:  # noqa: BLE001
                    res.append(("raised", type(e).__name__))
            pre_results.append(res)
        for (r, t), res in zip(trees[1:], pre_results[1:]):
            for i, (a, b) in enumerate(zip(pre_results[0], res)):
                if a != b:
                    violations.append(Violation(ID, "partial-read-differs", "cached" if cached else
                                                "uncached", {
                        "rpc_a": trees[0][0], "rpc_b": r, "selection": plan["pre_reads"][i],
                        "a": a[:3] if a[0] == "ok" else a, "b": b[:3] if b[0] == "ok" else b}))
                    break
        if len(trees) >= 2:
            r0, t0 = trees[0]
            for r, t in trees[1:]:
                n0 = prod.truth[prod.images[0]].shape[0]
                keys.append(f"{common.rpc_relation(n0, r0)}|{common.rpc_relation(n0, r)}|"
                            f"{'cached' if cached else 'uncached'}|{prod.level}")
                diffs = tree_diff(t0, t)
                if diffs:
                    violations.append(Violation(ID, "trees-differ", "cached" if cached else
                                                "uncached", {"rpc_a": r0, "rpc_b": r,
                                                             "diffs": diffs}))
        for r, t in trees:
            for name in prod.images:
                n = prod.truth[name].shape[0]
                try:
                    da = t["imagery"][prod.groups[name]]["data"]
                except Exception:  # noqa: BLE001 - structure is C13's business
                    continue
                pc = da.encoding.get("preferred_chunksizes")
                want = min(r, n)
                got = None if pc is None else pc.get("rows")
                if got != want:
                    violations.append(Violation(ID, "preferred-chunksize", common.rpc_relation(n, r),
                                                {"rpc": r, "lines": n, "advertised": pc,
                                                 "want_rows": want}))
        # ---- the same opens once more, all at the same time (one thread each, seeded schedule):
        # what an open returns must not depend on another open being under way
        # (not on memory://: fsspec hands out ONE file object per path there, so that two opens of
        # the same file at the same time disturb each other whatever the library does)
        if plan.get("concurrent_opens") and len(trees) >= 2 and not violations \
                and w.backend != "memory":
            picked = []
            for r_c, t_c in trees:
                if r_c not in [x[0] for x in picked]:
                    picked.append((r_c, t_c))
            picked = picked[:3]
            for k_s in range(3):
                calls = {"O%d" % i_c: (lambda r_c=r_c: w.open(use_cache=False, records_per_chunk=r_c))
                         for i_c, (r_c, _) in enumerate(picked)}
                res, errs, sch = common.concurrent_calls(calls, plan["concurrent_opens"] + k_s)
                stats["concurrent-open-schedules"] = stats.get("concurrent-open-schedules", 0) + 1
                bad = None
                if sch.deadlock or sch.budget:
                    bad = Violation(ID, "concurrent-opens-hang", "deadlock" if sch.deadlock else "budget",
                                    {"rpcs": [x[0] for x in picked]})
                for i_c, (r_c, t_c) in enumerate(picked):
                    if bad:
                        break
                    nm = "O%d" % i_c
                    if nm in errs:
                        bad = Violation(ID, "open-raised", "concurrent:" + type(errs[nm]).__name__, {
                            "rpc": r_c, "error": exc_text(errs[nm])})
                        break
                    t_new = res.get(nm)
                    for img in prod.images:
                        n_i = prod.truth[img].shape[0]
                        got = t_new["imagery"][prod.groups[img]]["data"].encoding.get(
                            "preferred_chunksizes", {}).get("rows")
                        if got != min(r_c, n_i):
                            bad = Violation(ID, "preferred-chunksize", "concurrent-opens", {
                                "rpc": r_c, "lines": n_i, "advertised": got,
                                "other_rpcs": [x[0] for x in picked if x[0] != r_c]})
                            break
                    if bad is None:
                        diffs = tree_diff(t_c, t_new)
                        if diffs:
                            bad = Violation(ID, "trees-differ", "concurrent-opens", {
                                "rpc": r_c, "diffs": diffs[:4]})
                if bad:
                    violations.append(bad)
                    break
        return common.outcome(SIM, violations, keys, stats)
    finally:
        w.destroy()


def shrink(plan):
    pre = plan.get("pre_reads") or []
    for k in range(len(pre)):
        yield common.with_(plan, pre_reads=pre[:k] + pre[k + 1:])
    if len(plan["rpcs"]) > 2:
        for k in range(len(plan["rpcs"])):
            yield common.with_(plan, rpcs=plan["rpcs"][:k] + plan["rpcs"][k + 1:])
    if plan["cached"]:
        yield common.with_(plan, cached=False)
    for wp in world.shrink_world(plan["world"]):
        yield common.with_(plan, world=wp)
