"""C09 a crash or concurrent writer during cache creation never poisons later opens -
crash points x schedules (DESIGN 3.3)."""
import random

from .. import world
from ..oracle import Violation, exc_text, tree_diff
from ..sched import Sched
from ..sim import SIM, SimAbort, SimKill
from . import common

ID = "C09"
LEVEL = "fault_enumeration"
SHARDS = 48
RULE = ("seeded runs; scenarios: S0 plant a prefix D[:k] of a real index document (user cache "
        "dir / adjacent / both; k in {0,1,2,|D|-1,|D|} + structural boundaries + multi-byte "
        "character cuts + random; thorough: EVERY k in 0..|D| for one level-1.1 and one "
        "level-1.5 product, sharded over the first %d runs), S1 kill of the create_cache / CLI writer at byte k (or at close) of the n-th "
        "file it writes or just before its n-th disk-mutating operation (mkdir / open / every "
        "write chunk / close / rename / unlink / fsync), S2 ENOSPC at byte k or at such an "
        "operation, S3 writer paused at byte k while a default open "
        "runs, S4 two or three interleaved writers (option / tool, also the tool run for several "
        "images of one ScanSAR product at once) (+readers) at write-chunk granularity under the "
        "seeded scheduler, S4b ALL interleavings of those writers at protocol-step granularity "
        "(mkdir / open / close / rename / unlink; depth-first, capped at 32 quick / 160 thorough "
        "schedules per run), S5 a creating call (option / tool) that fails with ENOSPC at byte k / "
        "at its n-th disk operation WHILE a default open is under way: all interleavings of the "
        "reader's probes and opens with the writer's steps (latest deviations first, capped at "
        "24 / 120); after the faults: default open == uncached reference, create_cache=True "
        "succeeds, next default open == reference and reads no image records. Each planted prefix "
        "/ fault is one evaluation; distinct key = (scenario, location/writer, k-class, "
        "level, schedule digest for S3/S4)" % (2 * SHARDS))
EXHAUSTIVE = {"quick": False, "thorough": False}
ASSUMPTIONS = [
    "kill = no further I/O of the actor takes effect (bytes < k are on disk, nothing after); "
    "cross-checked against real SIGKILLed child processes in './check selftest'",
    "ENOSPC applies to the file handle being written; the disk has space again once faults stop",
    "page-cache loss (power failure) is not modelled: what was written is what is on disk",
    "differential oracle: the reference is a fresh use_cache=False open in the same world",
    "either mechanism is accepted: ignoring an unusable index or never exposing one",
]
PROBES = ["torn_index_seen_by_reader", "hole_state_seen"]


def n_runs(tier):
    return 320 if tier == "quick" else 2 * SHARDS + 1500


def _small_world(rng, backends):
    return world.gen_world_plan(rng, backends=backends, max_images=2, max_lines=10, max_pixels=6,
                                large=0.0, huge=0.0)


def generate(rng, tier, index):
    if tier == "thorough" and index < 2 * SHARDS:
        level = "1.1" if index < SHARDS else "1.5"
        wr = random.Random("c09-exhaustive-" + level)
        wp = world.gen_world_plan(wr, backends=("local",), max_images=1, max_lines=3,
                                  max_pixels=3, level=level, large=0.0, huge=0.0)
        wp["images"] = wp["images"][:1]
        wp["images"][0].update(lines=3, pixels=2)
        return {"scenario": "S0", "world": wp, "location": ["user", "adjacent"][index % 2],
                "image": 0, "others": "none", "ks": [{"shard": [index % SHARDS, SHARDS]}],
                "exhaustive": True}
    scenario = rng.choice(["S0", "S0", "S0", "S1", "S1", "S2", "S3", "S4", "S4", "S4", "S5"])
    # one run in sixteen is the canonical "interrupted tool run, then the tool again" history
    # (local store, image of >= 6 lines, small --rpc so that the scan has several steps, eight
    # operation-level crash points, a complete tool run with another --rpc afterwards): whether a
    # batch contains enough of these must not depend on the seed (seeded-C09-agent11 did)
    forced_tool = index % 16 == 5
    # ... and one in sixteen interrupts a tool run that REFRESHES an adjacent index made when the
    # product lived elsewhere (same meaning, other bytes; crash points mostly late in the text)
    forced_moved = index % 16 == 13
    if forced_tool or forced_moved:
        scenario = rng.choice(["S1", "S1", "S2"])
    if scenario == "S0":
        wp = _small_world(rng, ("local", "file", "simfs", "simfs_opt"))
        n_k = 16 if tier == "quick" else 40
        ks = [{"abs": 0}, {"abs": 1}, {"abs": 2}, {"fromend": 1}, {"fromend": 0}]
        ks += [{"struct": rng.random()} for _ in range(n_k // 3)]
        ks += [{"multibyte": rng.random()}, {"multibyte": rng.random()}]
        ks += [{"outer": rng.random()} for _ in range(3)]
        ks += [{"frac": rng.random()} for _ in range(n_k - len(ks))]
        return {"scenario": "S0", "world": wp, "ks": ks,
                # the planted document is the one the TOOL writes (adjacent locations, half of
                # the time) - the two producers need not share a layout
                "producer": rng.choice(["option", "cli"]),
                "location": rng.choice(["user", "user", "adjacent", "both"]),
                "image": rng.randrange(len(wp["images"])),
                "others": rng.choice(["none", "complete"])}
    wp = _small_world(rng, ("local", "file") if forced_tool or forced_moved else
                      ("local", "local", "file", "simfs", "simfs_opt"))
    if forced_tool or forced_moved:
        for im in wp["images"]:
            im["lines"] = max(im["lines"], 6)
        wp["dirs"] = [d for d in wp.get("dirs", []) if d.isascii() and " " not in d
                      and "#" not in d and "%" not in d and "?" not in d]
    local = wp["backend"] in world.LOCAL
    plan = {"scenario": scenario, "world": wp}
    if scenario in ("S1", "S2"):
        plan["writer"] = rng.choice(["option", "option", "cli"]) if local else "option"
        plan["nth"] = rng.randrange(len(wp["images"])) if plan["writer"] == "option" else 0
        plan["cli_image"] = rng.randrange(len(wp["images"]))
        plan["at"] = rng.choice([{"abs": 0}, {"abs": 1}, {"fromend": 1}, {"fromend": 0},
                                 "close", {"frac": rng.random()}, {"frac": rng.random()},
                                 {"struct": rng.random()}, {"multibyte": rng.random()},
                                 {"outer": rng.random()}, {"outer": rng.random()},
                                 {"event": rng.randrange(0, 8)}, {"event": rng.randrange(0, 40)}])
        if "event" in plan["at"]:
            # crash just before the n-th disk-mutating operation of the writer (mkdir, open, each
            # write chunk, close, rename, unlink, ...) - whatever protocol the writer follows
            plan["chunk"] = rng.choice([64, 512, 4096, 1 << 30])
        # "moved": complete indexes that were made when the product lived elsewhere (the stored
        # location differs, the meaning is the same) are already in both cache locations
        plan["preexisting"] = rng.choice(["none", "none", "complete", "moved"])
        if len(wp["images"]) == 1 and rng.random() < 0.5 and not (
                isinstance(plan["at"], dict) and "event" in plan["at"]) and plan["at"] != "close":
            # the index of an EARLIER DELIVERY of the product (same names, other content) is in
            # place and the creation that refreshes it is interrupted while writing (only crash
            # points after the old file was opened for writing - before that the stale index is
            # simply still there, which is not this property's business)
            plan["preexisting"] = "stale"
        plan["moved_where"] = rng.choice(["user", "adjacent", "adjacent", "both"])
        # after an interrupted TOOL run the tool is run again, to completion, with another
        # records-per-chunk value, before the usual checks
        plan["tool_rerun_rpc"] = rng.choice([None, 1, 2, 3, 4, 7, 4096]) if rng.random() < 0.6 \
            else "no"
        # request size of the (interrupted) tool run itself: mostly small, so that its scan has
        # several steps
        plan["cli_rpc"] = rng.choice([None, 1, 2, 2, 3])
        # S2: the disk is STILL full when the first default open after the failed creation runs
        # (an open that was not asked to write must not need room)
        plan["still_full"] = rng.random() < 0.4
        if plan["writer"] == "cli" and plan["preexisting"] not in ("moved", "stale") \
                and rng.random() < 0.7:
            # the tool's protocol may have several steps per image (journal, temp file, marker):
            # several crash points of one run, at operation granularity
            plan["ats"] = [plan["at"]] + [{"event": e} for e in
                                          sorted(rng.sample(range(0, 18), 5))]
            plan["chunk"] = rng.choice([64, 512, 4096, 1 << 30])
        if forced_tool:
            plan["writer"] = "cli"
            plan["nth"] = 0
            plan["preexisting"] = "none"
            plan["cli_rpc"] = rng.choice([1, 2, 2, 3])
            plan["tool_rerun_rpc"] = rng.choice([None, 1, 2, 3, 4, 7, 4096])
            plan["at"] = {"event": rng.randrange(2, 12)}
            plan["ats"] = [plan["at"]] + [{"event": e} for e in sorted(rng.sample(range(0, 30), 7))]
            plan["chunk"] = rng.choice([64, 512, 4096, 1 << 30])
        if forced_moved:
            plan["writer"] = "cli"
            plan["nth"] = 0
            plan["preexisting"] = "moved"
            plan["moved_where"] = rng.choice(["adjacent", "adjacent", "both"])
            plan["at"] = {"frac": 0.5 + 0.5 * rng.random()}
            plan.pop("ats", None)
            plan.pop("chunk", None)
        if plan["preexisting"] == "moved":
            # the old and the new document differ late in the text (stored location): several
            # crash points per run, most of them in the last third
            plan["ats"] = [plan["at"]] + [{"frac": 0.66 + 0.34 * rng.random()} for _ in range(4)] \
                + [{"fromend": rng.randint(1, 300)}, {"frac": rng.random()}]
        return plan
    plan["sched_seed"] = rng.randrange(2**31)
    plan["switch_p"] = rng.choice([1.0, 0.5, 0.2, 0.05])
    if scenario == "S5":
        # a creating call that fails (disk full at byte k / at its n-th disk operation) while a
        # default open of the same product is under way: all interleavings of the reader's
        # probes / opens with the writer's protocol steps, latest deviations first, capped
        plan["writer"] = rng.choice(["option", "option", "cli"]) if local else "option"
        plan["nth"] = rng.randrange(len(wp["images"])) if plan["writer"] == "option" else 0
        plan["cli_image"] = rng.randrange(len(wp["images"]))
        plan["at"] = rng.choice([{"abs": 0}, {"abs": 1}, {"frac": rng.random()}, {"fromend": 1},
                                 {"event": rng.randrange(1, 6)}])
        plan["preexisting"] = rng.choice(["none", "complete"])
        plan["cap"] = 24 if tier == "quick" else 120
        return plan
    if scenario == "S3":
        plan["nth"] = rng.randrange(len(wp["images"]))
        plan["at"] = rng.choice([{"abs": 0}, {"abs": 1}, {"fromend": 1}, {"frac": rng.random()},
                                 {"frac": rng.random()}])
        plan["preexisting"] = rng.choice(["none", "none", "complete"])
        # "racing": the paused writer is released just before the default open starts and goes
        # on writing in small chunks while the reader is at work (the index GROWS between two
        # looks of the reader); virtual time passes with every scheduler step, so that a reader
        # that sleeps and looks again finds the writer still busy
        plan["race"] = rng.random() < 0.5
        plan["chunk"] = rng.choice([16, 64, 256, 1000])
        plan["step_cost"] = rng.choice([0.0, 0.001, 0.02, 0.05, 0.2])
        return plan
    plan["writers"] = ["option", rng.choice(["option", "option", "cli"] if local else ["option"])]
    if rng.random() < 0.3:
        plan["writers"].append("option")
    if local and rng.random() < 0.4:
        # the tool run for several images at the same time (one process per image); half of the
        # time on a ScanSAR product whose files are the scans of one polarisation
        plan["writers"] = ["cli"] * rng.choice([2, 2, 3])
        if rng.random() < 0.5:
            wp2 = world.gen_world_plan(rng, backends=(wp["backend"],), max_images=3, max_lines=10,
                                       max_pixels=6, large=0.0, huge=0.0, level="1.1",
                                       n_images=rng.choice([2, 3]), one_pol_scans=True)
            plan["world"] = wp = wp2
    if rng.random() < 0.35:
        # instead of one seeded schedule at write-chunk granularity: ALL interleavings of the
        # writers at protocol-step granularity (open / close / rename / unlink / mkdir ...)
        plan["s4_mode"] = "boundaries"
        plan["cap"] = 32 if tier == "quick" else 160
    plan["cli_image"] = rng.randrange(len(wp["images"]))
    plan["cli_images"] = [(plan["cli_image"] + i) % len(wp["images"])
                          for i in range(len(plan["writers"]))]
    plan["readers"] = rng.choice([0, 1, 1, 2])
    plan["chunk"] = rng.choice([1, 7, 64, 512, 1000, 4096, 8192])
    plan["step_cost"] = rng.choice([0.0, 0.0, 0.001, 0.02, 0.05])
    return plan


# ---------------------------------------------------------------------------- helpers
def structural_offsets(doc):
    """prefix lengths that end right after a token boundary of the JSON text, plus every cut
    inside a bare literal (null/true/false/NaN/Infinity) - the places where a tolerant reader
    is most likely to mis-classify a torn document"""
    import re

    from .. import boot

    # the document embeds the scratch root (pid-dependent characters, fixed length): mask it so
    # that the chosen offsets do not depend on the process that runs the simulation
    root = (boot.SCRATCH["root"] or "").encode()
    if root:
        doc = doc.replace(root, b"x" * len(root))
    out = {i + 1 for i, c in enumerate(doc) if c in b'{",[]}:.-+eE'}
    for m in re.finditer(rb"null|true|false|NaN|Infinity", doc):
        out.update(range(m.start() + 1, m.end()))
    out.update(multibyte_offsets(doc))
    out.update(outer_offsets(doc))
    return sorted(out)


def outer_offsets(doc):
    """prefix lengths at which a document made of several self-contained pieces would look
    complete to a reader without an end marker: just before / after every line break, and right
    after every value that closes at nesting depth <= 3 (and after the comma that follows it)"""
    out = set()
    depth = 0
    in_str = esc = False
    for i, ch in enumerate(doc):
        c = chr(ch)
        if c == "\n":
            out.update((i, i + 1))
        if in_str:
            if esc:
                esc = False
            elif c == "\\":
                esc = True
            elif c == '"':
                in_str = False
            continue
        if c == '"':
            in_str = True
        elif c in "{[":
            depth += 1
        elif c in "}]":
            depth -= 1
            if depth <= 3:
                out.add(i + 1)
                if doc[i + 1:i + 2] == b",":
                    out.add(i + 2)
    return sorted(k for k in out if 0 < k < len(doc))


def multibyte_offsets(doc):
    """prefix lengths that end between the bytes of a multi-byte UTF-8 character (documents need
    not be pure ASCII: units such as 'Hz/\u00b5s', non-ASCII product paths)"""
    return sorted({i for i, ch in enumerate(doc) if 0x80 <= ch < 0xC0})


def resolve_k(spec, doc):
    n = len(doc)
    if spec == "close":
        return "close"
    if "abs" in spec:
        return min(spec["abs"], n)
    if "fromend" in spec:
        return max(n - spec["fromend"], 0)
    if "frac" in spec:
        return int(spec["frac"] * (n + 1)) % (n + 1)
    if "multibyte" in spec:
        mo = multibyte_offsets(doc)
        if mo:
            return mo[int(spec["multibyte"] * len(mo)) % len(mo)]
        spec = {"struct": spec["multibyte"]}
    if "outer" in spec:
        oo = outer_offsets(doc)
        if oo:
            # line breaks first (a line-oriented document has few of them among many brackets)
            nl = [k for k in oo if doc[k - 1:k] == b"\n" or doc[k:k + 1] == b"\n"]
            pool = nl if nl and spec["outer"] < 0.5 else oo
            x = spec["outer"] * 2 % 1.0
            return pool[int(x * len(pool)) % len(pool)]
        spec = {"struct": spec["outer"]}
    if "struct" in spec:
        so = structural_offsets(doc)
        return so[int(spec["struct"] * len(so)) % len(so)] if so else 0
    raise ValueError(spec)


def k_class(k, n):
    if k in ("close", "event"):
        return k
    if k == 0:
        return "0"
    if k >= n:
        return "complete"
    if k <= 16:
        return "first16"
    if k >= n - 16:
        return "last16"
    return "interior"


class CliFailed(RuntimeError):
    pass


class Ctx:
    def __init__(self, plan):
        self.plan = plan
        self.w = world.World(plan["world"])
        self.prod = self.w.product
        self.violations = []
        self.keys = []
        self.stats = {}
        self.cli_docs = {}
        self.evaluations = 0
        self.stale_docs = None
        self.kind = "local" if self.w.backend in world.LOCAL else "simfs"

    def bump(self, k, n=1):
        self.stats[k] = self.stats.get(k, 0) + n

    def bad(self, cls, site, **details):
        self.violations.append(Violation(ID, cls, site, details))

    # -- the checks every scenario ends with -----------------------------------------
    def default_open_ok(self, ref, where, **ctx):
        """(a): default options -> no exception, identical to the reference, loadable"""
        try:
            t = self.w.open()
        except SimAbort:
            raise
        except Exception as e:  # noqa: BLE001
            self.bad("default-open-raised", f"{where}:{type(e).__name__}", error=exc_text(e),
                     **ctx)
            return False
        diffs = tree_diff(ref, t)
        if diffs:
            self.bad("default-open-wrong-tree", where, diffs=diffs, **ctx)
            return False
        return True

    def repair_ok(self, ref, where, **ctx):
        """(b)+(c): create_cache=True succeeds and the next default open uses the index"""
        try:
            self.w.open(create_cache=True)
        except SimAbort:
            raise
        except Exception as e:  # noqa: BLE001
            self.bad("repair-raised", f"{where}:{type(e).__name__}", error=exc_text(e), **ctx)
            return False
        mark = SIM.mark()
        try:
            t = self.w.open()
        except SimAbort:
            raise
        except Exception as e:  # noqa: BLE001
            self.bad("open-after-repair-raised", f"{where}:{type(e).__name__}",
                     error=exc_text(e), **ctx)
            return False
        events = SIM.since(mark)
        diffs = tree_diff(ref, t)
        if diffs:
            self.bad("wrong-tree-after-repair", where, diffs=diffs, **ctx)
            return False
        imgs = set(self.prod.images)
        reads = [(e[2], e[3].rsplit("/", 1)[-1]) + tuple(e[4:6]) for e in events
                 if e[2] in ("read", "cat") and isinstance(e[3], str)
                 and e[3].rsplit("/", 1)[-1] in imgs]
        if reads:
            self.bad("not-repaired", where, image_reads_at_open=reads[:4], **ctx)
            return False
        return True


class CreationFailed(Exception):
    pass


def _produce_docs(c):
    """a successful creation in the pristine world -> ({image: bytes}, hashdir)"""
    try:
        c.w.open(create_cache=True, use_cache=False)
    except SimAbort:
        raise
    except Exception as e:  # noqa: BLE001
        raise CreationFailed(type(e).__name__ + ": " + exc_text(e)) from e
    made = c.w.user_index_files()
    if not made:
        raise CreationFailed("create_cache=True wrote no index file below the user cache directory")
    docs = {fn[:-len(".index")]: data for (d, fn), data in made.items()}
    dirs = sorted({d for (d, fn) in made})
    hashdir = dirs[0].split("/", 1)[1] if dirs else None
    return docs, hashdir


def _produce_cli_doc(c, img):
    """the document the TOOL writes for one image (a complete, undisturbed tool run); None when
    the tool does not get that far on this product path"""
    try:
        rc = c.w.cli(img, rpc=c.plan.get("cli_rpc"))
    except SimAbort:
        raise
    except Exception:  # noqa: BLE001
        rc = 1
    doc = c.w.adjacent().get(img + ".index") if rc == 0 else None
    c.w.clear_adjacent()
    c.bump("cli-doc-produced" if doc else "cli-doc-unavailable")
    return doc


def _place(c, location, img, data, hashdir):
    if location in ("user", "both"):
        c.w.plant_user(hashdir, img, data)
    if location in ("adjacent", "both"):
        c.w.plant_adjacent(img, data)


def _clear(c):
    c.w.clear_user_cache()
    c.w.clear_adjacent()


# ---------------------------------------------------------------------------- scenarios
def run_s0(c, ref):
    plan = c.plan
    docs, hashdir = _produce_docs(c)
    _clear(c)
    img = c.prod.images[plan["image"]]
    doc = docs[img]
    if plan.get("producer") == "cli" and plan["location"] in ("adjacent", "both") \
            and c.kind == "local" and not plan.get("exhaustive"):
        doc = _produce_cli_doc(c, img) or doc
    ks = []
    for spec in plan["ks"]:
        if "shard" in spec:
            s, m = spec["shard"]
            ks.extend(range(s, len(doc) + 1, m))
        else:
            ks.append(resolve_k(spec, doc))
    seen = set()
    first_bad = None
    for k in ks:
        if k in seen:
            continue
        seen.add(k)
        _clear(c)
        if plan["others"] == "complete":
            for other, d in docs.items():
                if other != img:
                    _place(c, plan["location"], other, d, hashdir)
        _place(c, plan["location"], img, doc[:k], hashdir)
        SIM.fault("plant")
        c.evaluations += 1
        kc = k_class(k, len(doc))
        where = f"S0:{plan['location']}"
        c.keys.append(f"S0|{plan['location']}|{kc}|{c.prod.level}|{c.kind}")
        ok = c.default_open_ok(ref, where, k=k, doc_len=len(doc), image=img)
        if not ok and first_bad is None:
            first_bad = k
        if k < len(doc):
            SIM.probe("torn_index_seen_by_reader")
        # "a later successful create_cache=True repairs it" - checked after every planted prefix
        # (in the exhaustive shards: after every 4th, and always after a token boundary)
        if ok and (not plan.get("exhaustive") or len(seen) % 4 == 0
                   or (0 < k <= len(doc) and doc[k - 1:k] in b'{}[]",:')):
            c.repair_ok(ref, where, k=k, doc_len=len(doc))
    _clear(c)
    if first_bad is not None and len(ks) > 1:
        return {"ks": [{"abs": first_bad}]}


def _writer(c, kind, image=None):
    if kind == "cli":
        rc = c.w.cli(c.prod.images[image or 0], rpc=c.plan.get("cli_rpc"))
        if rc != 0:
            # the tool reports failure through its exit status (it does so for an injected
            # disk-full, and - on the pinned tree - for every product path that contains a space
            # or a non-ASCII character); the property is about the opens that follow
            c.bump("cli-exit-status-nonzero")
            raise CliFailed(f"cli exit status {rc}")
        return "cli"
    c.w.open(create_cache=True, use_cache=False)
    return "option"


def _moved_doc(doc):
    """the same index as made at another location of the product (other bytes, other length)"""
    import json

    def find_root(obj):
        if isinstance(obj, dict):
            if obj.get("__type__") == "backend_array" and isinstance(obj.get("root"), str):
                return obj["root"]
            for v in obj.values():
                r = find_root(v)
                if r:
                    return r
        elif isinstance(obj, list):
            for v in obj:
                r = find_root(v)
                if r:
                    return r
        return None

    try:
        root = find_root(json.loads(doc))
    except Exception:  # noqa: BLE001
        return doc
    if not root:
        return doc
    old = json.dumps(root)[1:-1].encode()
    return doc.replace(old, b"/mnt/archive/2019/where-the-product-was-before")


def _stale_docs(c):
    """index documents of an earlier delivery: the same file names, another number of lines,
    other line metadata"""
    import copy

    plan = c.plan
    old = copy.deepcopy(plan["world"])
    for im in old["images"]:
        im["lines"] = max(im["lines"] + (3 if im["lines"] < 6 else -2), 1)
    old["data_seed"] = plan["world"]["data_seed"] + 17
    old["t0_ms"] = 1000
    current = plan["world"]
    c.w.rewrite_in_place(old)
    try:
        stale, _ = _produce_docs(c)
    finally:
        _clear(c)
        c.w.rewrite_in_place(current)
    return stale


def run_s1_s2(c, ref):
    plan = c.plan
    c.stale_docs = _stale_docs(c) if plan.get("preexisting") == "stale" else None
    docs, hashdir = _produce_docs(c)
    if plan["writer"] == "cli":
        img = c.prod.images[plan["cli_image"]]
        c.cli_docs[img] = _produce_cli_doc(c, img)
    bad_ats = []
    for at in plan.get("ats") or [plan["at"]]:
        n_before = len(c.violations)
        _run_s1_s2_once(c, ref, docs, hashdir, at)
        if len(c.violations) > n_before:
            bad_ats.append(at)
    if bad_ats and plan.get("ats") and len(bad_ats) < len(plan["ats"]):
        return {"ats": bad_ats, "at": bad_ats[0]}


def _run_s1_s2_once(c, ref, docs, hashdir, at):
    plan = c.plan
    if plan.get("preexisting") != "complete" or plan.get("ats"):
        _clear(c)
    if plan.get("preexisting") == "stale":
        where = "adjacent" if plan["writer"] == "cli" else "user"
        for name, d in (c.stale_docs or {}).items():
            if where == "user":
                c.w.plant_user(hashdir, name, d)
            else:
                c.w.plant_adjacent(name, d)
    if plan.get("preexisting") == "moved":
        where = plan.get("moved_where", "both")
        for name, d in docs.items():
            if where in ("user", "both"):
                c.w.plant_user(hashdir, name, _moved_doc(d))
            if where in ("adjacent", "both"):
                c.w.plant_adjacent(name, _moved_doc(d))
    scen = plan["scenario"]
    writer = plan["writer"]
    if writer == "cli":
        img = c.prod.images[plan["cli_image"]]
        match, nth = ".index", 0
        if c.cli_docs.get(img):
            # byte offsets are resolved against what this writer itself writes
            docs = dict(docs, **{img: c.cli_docs[img]})
    else:
        img = sorted(docs)[plan["nth"] % len(docs)]
        match, nth = "xdg/", plan["nth"]
    if isinstance(at, dict) and "event" in at:
        k = "event"
        SIM.write_plan = {"kind": "kill" if scen == "S1" else "enospc", "actor": "W",
                          "at_event": at["event"]}
        SIM.write_chunk = plan.get("chunk", 1 << 30)
    else:
        k = resolve_k(at, docs[img])
        SIM.write_plan = {"kind": "kill" if scen == "S1" else "enospc", "actor": "W",
                          "match": match, "nth": nth, "at": k}
    SIM.actor = "W"
    outcome = "completed"
    try:
        _writer(c, writer, plan.get("cli_image"))
    except SimKill:
        outcome = "killed"
    except SimAbort:
        raise
    except Exception as e:  # noqa: BLE001 - with ENOSPC the creating call may raise
        outcome = "raised:" + type(e).__name__
        if isinstance(e, CliFailed):
            pass
        elif scen == "S1" or not SIM.write_plan.get("fired"):
            c.bad("writer-raised-without-fault", f"{scen}:{writer}:{type(e).__name__}",
                  error=exc_text(e))
    finally:
        SIM.actor = "main"
        fired = bool(SIM.write_plan.get("fired"))
        fired_at = SIM.write_plan.get("fired_at")
        SIM.write_plan = None
        SIM.write_chunk = 1 << 30
    if fired_at:
        c.bump("crash-before:" + fired_at[0])
    c.bump("writer-" + outcome)
    c.bump("fault-fired" if fired else "fault-not-reached")
    if scen == "S1":
        world.restart()          # the killed process is gone; survivors see only files
    c.evaluations += 1
    where = f"{scen}:{writer}"
    kc = k_class(k, len(docs[img])) + (":" + fired_at[0] if fired_at and k == "event" else "")
    c.keys.append(f"{scen}|{writer}|{kc}|{c.prod.level}|{c.kind}|"
                  f"{plan.get('preexisting')}|{outcome.split(':')[0]}")
    ctx = {"k": k, "doc_len": len(docs[img]), "writer_outcome": outcome}
    if fired_at:
        ctx["crash_before"] = fired_at
    if plan.get("preexisting") == "stale" and not (fired and outcome in ("killed",) or
                                                    (fired and outcome.startswith("raised"))):
        # the refreshing creation never got as far as writing (e.g. the tool refused the path):
        # the earlier delivery's index is simply still there - a stale cache, not an interrupted
        # creation
        c.bump("stale-not-reached")
        return
    if plan.get("preexisting") == "stale":
        # a creation that was interrupted BEFORE it touched the old index (e.g. while writing a
        # temporary file that is renamed at the end) leaves the earlier delivery's index exactly
        # as it was: a stale cache again, not a torn one
        where_s = "adjacent" if plan["writer"] == "cli" else "user"
        now = c.w.adjacent() if where_s == "adjacent" else {
            fn: data for (d, fn), data in c.w.user_cache().items()}
        if all(now.get(name + ".index") == d for name, d in (c.stale_docs or {}).items()):
            c.bump("stale-untouched")
            return
    if scen == "S2" and fired and plan.get("still_full"):
        SIM.disk_full = True
        try:
            c.bump("opens-with-disk-still-full")
            if not c.default_open_ok(ref, where + ":disk-still-full", **ctx):
                return
        finally:
            SIM.disk_full = False
    ok = c.default_open_ok(ref, where, **ctx)
    if ok and writer == "cli" and plan.get("tool_rerun_rpc", "no") != "no":
        # "a later successful creation repairs it" - here by the tool itself, with another rpc
        rc = c.w.cli(c.prod.images[plan["cli_image"]], rpc=plan["tool_rerun_rpc"])
        c.bump("tool-reruns")
        if rc == 0:
            ok = c.default_open_ok(ref, where + ":after-tool-rerun", rerun_rpc=plan["tool_rerun_rpc"],
                                   **ctx)
        else:
            c.bump("cli-exit-status-nonzero")
    if ok:
        c.repair_ok(ref, where, **ctx)


def run_s3(c, ref):
    plan = c.plan
    docs, hashdir = _produce_docs(c)
    if plan.get("preexisting") != "complete":
        _clear(c)
    img = sorted(docs)[plan["nth"] % len(docs)]
    k = resolve_k(plan["at"], docs[img])
    SIM.write_plan = {"kind": "pause", "actor": "W", "match": "xdg/", "nth": plan["nth"], "at": k}
    rng = random.Random(plan["sched_seed"])
    s = Sched(rng=rng, script=plan.get("schedule"), switch_p=plan["switch_p"], max_steps=200000)
    s.step_cost = float(plan.get("step_cost") or 0.0)
    results = {}
    race = bool(plan.get("race"))
    if race:
        SIM.write_chunk = plan.get("chunk", 64)

    def writer():
        return _writer(c, "option")

    def driver():
        s.wait_until(lambda: "W" in s.suspended or "W" in s.done)
        results["paused"] = "W" in s.suspended
        if race:
            s.resume("W")
            c.bump("s3-racing")
            results["during"] = c.default_open_ok(ref, "S3:racing", k=k, doc_len=len(docs[img]))
        else:
            results["during"] = c.default_open_ok(ref, "S3:during", k=k, doc_len=len(docs[img]))
            s.resume("W")
        s.wait_until(lambda: "W" in s.done)
        return True

    s.spawn("W", writer)
    s.spawn("D", driver)
    try:
        s.run(wall_timeout=800)
    finally:
        SIM.write_plan = None
        SIM.write_chunk = 1 << 30
    c.evaluations += 1
    c.bump("paused" if results.get("paused") else "pause-not-reached")
    if results.get("paused") and 0 < k < len(docs[img]):
        SIM.probe("torn_index_seen_by_reader")
    c.keys.append(f"S3|{k_class(k, len(docs[img]))}|{c.prod.level}|{c.kind}|"
                  f"{plan.get('preexisting')}")
    if _sched_problems(c, s, "S3"):
        return
    if "W" in s.err:
        c.bad("writer-raised-without-fault", f"S3:option:{type(s.err['W']).__name__}",
              error=exc_text(s.err["W"]))
    if "D" in s.err:
        raise s.err["D"]
    if c.default_open_ok(ref, "S3:after", k=k):
        c.repair_ok(ref, "S3:after", k=k)
    return {"schedule": list(s.trace)}


def _sched_problems(c, s, scen):
    if s.deadlock:
        c.bad("deadlock", scen, blocked=sorted(s.blocked))
        return True
    if s.budget:
        c.bad("no-progress", scen, steps=s.steps)
        return True
    return False


BOUNDARY_KINDS = {"open-w", "close-w", "replace", "rename", "unlink", "remove", "mkdir", "rmdir",
                  "fsync", "link", "symlink", "truncate"}


def run_s4_boundaries(c, ref):
    """every interleaving of the writers' protocol steps (depth-first over the scheduler's choice
    tree, capped); after each one the cache must not poison a default open, and creation repairs"""
    plan = c.plan
    cli_images = plan.get("cli_images") or [plan.get("cli_image")] * len(plan["writers"])
    stack = [list(plan["schedule"])] if plan.get("schedule") is not None else [[]]
    cap = 1 if plan.get("schedule") is not None else plan.get("cap", 48)
    j = 0
    bad_schedule = None
    import hashlib

    pick = random.Random(plan.get("sched_seed", 0))
    while stack and j < cap:
        # when the cap cuts the search short: alternately the latest deviation (one late switch is
        # what most races need) and a seeded random one (spread over the tree)
        prefix = stack.pop() if j % 2 == 0 else stack.pop(pick.randrange(len(stack)))
        _clear(c)
        s = Sched(script=prefix, max_steps=400000)
        s.only_kinds = BOUNDARY_KINDS
        names = []
        for i, kind in enumerate(plan["writers"]):
            nm = "W%d" % i
            names.append(nm)
            s.spawn(nm, lambda kind=kind, img=cli_images[i]: _writer(c, kind, img))
        s.run(wall_timeout=800)
        dec = s.decisions
        for i in range(len(prefix), len(dec)):
            runnable, chosen = dec[i]
            for alt in runnable:
                if alt != chosen:
                    stack.append([d[1] for d in dec[:i]] + [alt])
        j += 1
        c.evaluations += 1
        c.bump("s4-boundary-schedules")
        order = hashlib.sha256(",".join(s.trace).encode()).hexdigest()[:10]
        c.keys.append(f"S4b|{'+'.join(plan['writers'])}|{c.prod.level}|{c.kind}|{order}")
        n_before = len(c.violations)
        if _sched_problems(c, s, "S4b"):
            pass
        else:
            for nm in names:
                if nm in s.err:
                    c.bump("concurrent-writer-raised:" + type(s.err[nm]).__name__)
            if c.default_open_ok(ref, "S4b:after", writers=plan["writers"]) and (j <= 8 or j % 4 == 0):
                c.repair_ok(ref, "S4b:after", writers=plan["writers"])
        if len(c.violations) > n_before and bad_schedule is None:
            bad_schedule = list(s.trace)
    c.bump("s4-boundary-complete" if not stack else "s4-boundary-capped")
    if bad_schedule is not None:
        return {"schedule": bad_schedule}


READER_KINDS = BOUNDARY_KINDS | {"stat", "open", "info", "cat"}


def run_s5(c, ref):
    plan = c.plan
    docs, hashdir = _produce_docs(c)
    writer = plan["writer"]
    if writer == "cli":
        img = c.prod.images[plan["cli_image"]]
        match, nth = ".index", 0
    else:
        img = sorted(docs)[plan["nth"] % len(docs)]
        match, nth = "xdg/", plan["nth"]
    stack = [list(plan["schedule"])] if plan.get("schedule") is not None else [[]]
    cap = 1 if plan.get("schedule") is not None else plan.get("cap", 40)
    pick = random.Random(plan.get("sched_seed", 0))
    j = 0
    bad_schedule = None
    import hashlib

    while stack and j < cap:
        prefix = stack.pop() if j % 2 == 0 else stack.pop(pick.randrange(len(stack)))
        _clear(c)
        if plan.get("preexisting") == "complete":
            for name, d in docs.items():
                c.w.plant_user(hashdir, name, d)
        if isinstance(plan["at"], dict) and "event" in plan["at"]:
            SIM.write_plan = {"kind": "enospc", "actor": "W", "at_event": plan["at"]["event"]}
        else:
            SIM.write_plan = {"kind": "enospc", "actor": "W", "match": match, "nth": nth,
                              "at": resolve_k(plan["at"], docs[img])}
        s = Sched(script=prefix, max_steps=400000)
        s.only_kinds = READER_KINDS
        n_before = len(c.violations)

        def reader():
            return c.default_open_ok(ref, "S5:during", writer=writer)

        s.spawn("R", reader)            # first: the default schedule lets the reader finish first
        s.spawn("W", lambda: _writer(c, writer, plan.get("cli_image")))
        try:
            s.run(wall_timeout=800)
        finally:
            fired = bool(SIM.write_plan.get("fired"))
            SIM.write_plan = None
        dec = s.decisions
        for i in range(len(prefix), len(dec)):
            runnable, chosen = dec[i]
            for alt in runnable:
                if alt != chosen:
                    stack.append([d[1] for d in dec[:i]] + [alt])
        j += 1
        c.evaluations += 1
        c.bump("s5-schedules")
        c.bump("s5-fault-fired" if fired else "s5-fault-not-reached")
        order = hashlib.sha256(",".join(s.trace).encode()).hexdigest()[:10]
        c.keys.append(f"S5|{writer}|{c.prod.level}|{c.kind}|{plan.get('preexisting')}|{order}")
        if not _sched_problems(c, s, "S5"):
            if "R" in s.err:
                raise s.err["R"]
            if "W" in s.err:
                c.bump("s5-writer-raised:" + type(s.err["W"]).__name__)
            if c.default_open_ok(ref, "S5:after", writer=writer) and (j <= 4 or j % 8 == 0):
                c.repair_ok(ref, "S5:after", writer=writer)
        if len(c.violations) > n_before and bad_schedule is None:
            bad_schedule = list(s.trace)
    c.bump("s5-complete" if not stack else "s5-capped")
    if bad_schedule is not None:
        return {"schedule": bad_schedule}


def run_s4(c, ref):
    plan = c.plan
    if plan.get("s4_mode") == "boundaries":
        return run_s4_boundaries(c, ref)
    rng = random.Random(plan["sched_seed"])
    SIM.write_chunk = plan["chunk"]
    s = Sched(rng=rng, script=plan.get("schedule"), switch_p=plan["switch_p"], max_steps=400000)
    s.step_cost = float(plan.get("step_cost") or 0.0)
    names = []
    cli_images = plan.get("cli_images") or [plan.get("cli_image")] * len(plan["writers"])
    for i, kind in enumerate(plan["writers"]):
        nm = "W%d" % i
        names.append(nm)
        s.spawn(nm, lambda kind=kind, img=cli_images[i]: _writer(c, kind, img))
    reader_results = {}
    for i in range(plan["readers"]):
        nm = "R%d" % i

        def reader(nm=nm):
            reader_results[nm] = c.default_open_ok(ref, "S4:during", chunk=plan["chunk"])
            return True
        s.spawn(nm, reader)
    mark = SIM.mark()
    try:
        s.run(wall_timeout=800)
    finally:
        SIM.write_chunk = 1 << 30
    c.evaluations += 1
    # did some reader really observe a file while a writer was inside it?
    events = SIM.since(mark)
    writing = set()
    for ev in events:
        if ev[2] == "open-w":
            writing.add(ev[1])
        elif ev[2] == "close-w":
            writing.discard(ev[1])
        elif ev[2] == "open" and ev[1].startswith("R") and writing and str(ev[3]).endswith(
                ".index"):
            SIM.probe("torn_index_seen_by_reader")
            break
    import hashlib

    order = hashlib.sha256(",".join(s.trace).encode()).hexdigest()[:10]
    c.keys.append(f"S4|{'+'.join(plan['writers'])}|r{plan['readers']}|chunk{plan['chunk']}|"
                  f"{c.prod.level}|{c.kind}|{order}")
    if _sched_problems(c, s, "S4"):
        return
    for nm in names:
        if nm in s.err:
            # the property speaks about the opens that follow, not about the fate of a creating
            # call that races with another writer (e.g. a shared temp name that the other writer
            # already renamed): counted, not judged - the sequential repair below is judged
            c.bump("concurrent-writer-raised:" + type(s.err[nm]).__name__)
    for nm, e in s.err.items():
        if nm.startswith("R"):
            raise e
    if c.default_open_ok(ref, "S4:after", chunk=plan["chunk"]):
        c.repair_ok(ref, "S4:after", chunk=plan["chunk"])
    return {"schedule": list(s.trace)}


def execute(plan):
    c = Ctx(plan)
    extra = {}
    try:
        try:
            ref = c.w.open(use_cache=False)
            tree_diff(ref, ref)
        except Exception as e:  # noqa: BLE001
            c.bump("reference-raised:" + type(e).__name__)
            return common.outcome(SIM, c.violations, c.keys, c.stats)
        scen = plan["scenario"]
        try:
            if scen == "S0":
                upd = run_s0(c, ref)
            elif scen in ("S1", "S2"):
                upd = run_s1_s2(c, ref)
            elif scen == "S3":
                upd = run_s3(c, ref)
            elif scen == "S5":
                upd = run_s5(c, ref)
            else:
                upd = run_s4(c, ref)
        except SimAbort:
            c.bad("no-progress", scen, events=len(SIM.log))
            upd = None
        except SimKill:
            raise
        except CreationFailed as e:     # an unfaulted create_cache=True open in the pristine world
            c.bad("cache-creation-raised", f"{scen}:{str(e).split(':')[0]}", error=str(e)[:300])
            upd = None
        extra["evaluations"] = max(c.evaluations, 1)
        if upd and c.violations and plan.get("schedule") is None:
            extra["plan_update"] = upd
        return common.outcome(SIM, c.violations, c.keys, c.stats, extra)
    finally:
        SIM.write_plan = None
        SIM.write_chunk = 1 << 30
        c.w.destroy()


def shrink(plan):
    scen = plan["scenario"]
    if scen == "S0" and len(plan["ks"]) > 1:
        ks = plan["ks"]
        half = len(ks) // 2
        yield common.with_(plan, ks=ks[:half])
        yield common.with_(plan, ks=ks[half:])
        for k in ks[:12]:
            yield common.with_(plan, ks=[k])
    if plan.get("ats") and len(plan["ats"]) > 1:
        for a in plan["ats"]:
            yield common.with_(plan, ats=[a], at=a)
    if plan.get("preexisting") == "complete":
        yield common.with_(plan, preexisting="none")
    if plan.get("others") == "complete":
        yield common.with_(plan, others="none")
    if scen == "S4":
        if plan["readers"] > 0:
            yield common.with_(plan, readers=plan["readers"] - 1)
        if len(plan["writers"]) > 2:
            yield common.with_(plan, writers=plan["writers"][:2])
        for ch in (8192, 1000):
            if plan["chunk"] < ch:
                yield common.with_(plan, chunk=ch)
    sch = plan.get("schedule")
    if sch:
        idx = [k for k, v in enumerate(sch) if v is not None]
        step = max(len(idx) // 2, 1)
        while step >= 1:
            for s0 in range(0, len(idx), step):
                cand = list(sch)
                for k in idx[s0:s0 + step]:
                    cand[k] = None
                yield common.with_(plan, schedule=cand)
            if step == 1:
                break
            step //= 2
    for wp in world.shrink_world(plan["world"]):
        if len(wp["images"]) == len(plan["world"]["images"]) and \
                (wp["backend"] == plan["world"]["backend"] or scen == "S0"):
            yield common.with_(plan, world=wp)
