"""C02 indexing equivalence - loader workload against an in-memory twin and a control
backend (DESIGN 3.1)."""
from .. import world
from . import loader

ID = "C02"
LEVEL = "exploration"
RULE = ("seeded runs; a run = product x back-end x records_per_chunk x 10-24 generated selections "
        "(int, negative int, slices with every sign combination incl. empty, int arrays incl. "
        "unsorted/repeated/negative/empty, boolean masks, outer indexing on both axes, vectorised "
        "DataArray indexers, label based .sel, ellipsis) plus, for images <= 4x4, the complete "
        "int/slice(start,stop,step) family on one axis; a selection counts only if xarray's own "
        "BASIC adapter over a NumPy array (control backend) accepts it; distinct key = (indexer "
        "class per axis, relation of r to N, level)")
ASSUMPTIONS = [
    "'accepted by xarray' is decided by a control BackendArray declaring IndexingSupport.BASIC "
    "over the verified NumPy values; what the control rejects is outside the property",
    "the in-memory twin is the fully loaded image, verified word for word against the truth "
    "model before use (runs with an unverified twin are skipped and counted)",
    "fault-free configuration, one actor",
]


def n_runs(tier):
    return 640 if tier == "quick" else 12000


def generate(rng, tier, index):
    return loader.generate(rng, tier, index, world.BACKENDS)


def execute(plan):
    return loader.execute(plan, {"C02"})


shrink = loader.shrink
