"""Selections on an image variable: generation (JSON-able), application, classification."""
import numpy as np
import xarray as xr


# ---------------------------------------------------------------------------- generation
def gen_index(rng, n, kinds=None):
    """one per-axis indexer for an axis of length n"""
    kinds = kinds or ["int", "negint", "slice", "slice", "negstep", "emptyslice", "arr", "negarr",
                      "reparr", "mask", "full", "emptyarr", "falsemask"]
    k = rng.choice(kinds)
    if k == "int":
        return {"int": rng.randrange(n)}
    if k == "negint":
        return {"int": -rng.randint(1, n)}
    if k == "full":
        return {"slice": [None, None, None]}
    if k == "slice":
        def bound():
            return rng.choice([None, rng.randint(-n - 1, n + 1)])
        return {"slice": [bound(), bound(), rng.choice([None, 1, 2, 3, 5, max(n // 2, 1),
                                                         max(n - 1, 1), n, n + 1])]}
    if k == "negstep":
        def bound():
            return rng.choice([None, rng.randint(-n - 1, n + 1)])
        return {"slice": [bound(), bound(), -rng.choice([1, 1, 2, 3, 5, max(n // 2, 1), n + 1])]}
    if k == "emptyslice":
        a = rng.randint(0, n)
        return {"slice": [a, rng.randint(0, a), rng.choice([None, 1, 2])]}
    if k == "arr":
        m = rng.randint(1, min(n, 6))
        return {"arr": [rng.randrange(n) for _ in range(m)]}
    if k == "negarr":
        m = rng.randint(1, min(n, 6))
        return {"arr": [rng.randint(-n, n - 1) for _ in range(m)]}
    if k == "reparr":
        a = rng.randrange(n)
        return {"arr": [a, rng.randrange(n), a]}
    if k == "emptyarr":
        return {"arr": []}
    if k == "mask":
        m = [rng.random() < 0.5 for _ in range(n)]
        if not any(m):
            m[rng.randrange(n)] = True
        return {"mask": m}
    if k == "falsemask":
        return {"mask": [False] * n}
    raise ValueError(k)


def gen_selection(rng, n, p, allow_chain=True):
    if allow_chain and rng.random() < 0.12:
        # two or three stacked lazy selections (xarray composes the keys before the backend sees
        # them): the first may leave few, one or no lines / pixels
        steps = []
        for _ in range(rng.choice([2, 2, 3])):
            which = rng.choice(["rows", "rows", "columns", "both"])
            step = {}
            if which in ("rows", "both"):
                step["rows"] = gen_index(rng, max(n, 1), ["slice", "slice", "negstep", "emptyslice",
                                                          "int", "arr", "mask", "full"])
            if which in ("columns", "both"):
                step["columns"] = gen_index(rng, max(p, 1), ["slice", "slice", "negstep",
                                                             "emptyslice", "int", "full"])
            steps.append(step)
        return {"kind": "chain", "steps": steps}
    c = rng.random()
    if c < 0.55:
        sel = {"kind": "isel"}
        which = rng.choice(["rows", "rows", "both", "both", "columns"])
        if which in ("rows", "both"):
            sel["rows"] = gen_index(rng, n)
        if which in ("columns", "both"):
            sel["columns"] = gen_index(rng, p)
        return sel
    if c < 0.7:
        return {"kind": "getitem", "key": [gen_index(rng, n), gen_index(rng, p)]}
    if c < 0.82:
        m = rng.randint(1, 5)
        sel = {"kind": "vec", "rows": [rng.randint(-n, n - 1) for _ in range(m)],
               "columns": [rng.randint(-p, p - 1) for _ in range(m)]}
        if rng.random() < 0.3:
            del sel[rng.choice(["rows", "columns"])]
        return sel
    if c < 0.94:
        # label based on the rows coordinate (line numbers 1..n)
        how = rng.choice(["scalar", "list", "slice"])
        if how == "scalar":
            return {"kind": "sel", "rows": {"label": rng.randint(1, n)}}
        if how == "list":
            return {"kind": "sel", "rows": {"labels": [rng.randint(1, n)
                                                       for _ in range(rng.randint(1, 4))]}}
        a = rng.randint(1, n)
        return {"kind": "sel", "rows": {"lslice": [a, rng.randint(a, n)]}}
    return {"kind": "ellipsis"}


def enumerate_int_slice(n):
    """every int and every slice(start, stop, step) over an axis of length n (small n)"""
    out = [{"int": i} for i in range(-n, n)]
    bounds = [None] + list(range(-n - 1, n + 2))
    steps = [None] + [s for s in range(-n - 1, n + 2) if s != 0]
    for a in bounds:
        for b in bounds:
            for s in steps:
                out.append({"slice": [a, b, s]})
    return out


# ---------------------------------------------------------------------------- application
def to_indexer(ix):
    if "int" in ix:
        return ix["int"]
    if "slice" in ix:
        return slice(*ix["slice"])
    if "arr" in ix:
        return np.array(ix["arr"], dtype=np.int64)
    if "mask" in ix:
        return np.array(ix["mask"], dtype=bool)
    raise ValueError(ix)


def apply(da, sel):
    """apply the selection to a DataArray (lazy or eager); does not load"""
    kind = sel["kind"]
    if kind == "isel":
        idx = {d: to_indexer(sel[d]) for d in ("rows", "columns") if d in sel}
        return da.isel(idx)
    if kind == "getitem":
        return da[tuple(to_indexer(ix) for ix in sel["key"])]
    if kind == "vec":
        idx = {d: xr.DataArray(np.array(sel[d], dtype=np.int64), dims="z")
               for d in ("rows", "columns") if d in sel}
        return da.isel(idx)
    if kind == "sel":
        spec = sel["rows"]
        if "label" in spec:
            return da.sel(rows=spec["label"])
        if "labels" in spec:
            return da.sel(rows=spec["labels"])
        a, b = spec["lslice"]
        return da.sel(rows=slice(a, b))
    if kind == "ellipsis":
        return da[...]
    if kind == "chain":
        out = da
        for step in sel["steps"]:
            idx = {d: to_indexer(step[d]) for d in ("rows", "columns")
                   if d in step and d in out.dims}
            out = out.isel(idx)
        return out
    raise ValueError(kind)


def selected_rows(sel, n):
    """the line indices (0-based, non-negative) the selection touches, or None if unknown"""
    def rows_of(ix):
        if ix is None:
            return list(range(n))
        if "int" in ix:
            return [ix["int"] % n] if -n <= ix["int"] < n else None
        if "slice" in ix:
            return list(range(n)[slice(*ix["slice"])])
        if "arr" in ix:
            if any(not -n <= a < n for a in ix["arr"]):
                return None
            return [a % n for a in ix["arr"]]
        if "mask" in ix:
            return [i for i, m in enumerate(ix["mask"]) if m]
        return None

    kind = sel["kind"]
    if kind == "isel":
        return rows_of(sel.get("rows"))
    if kind == "getitem":
        return rows_of(sel["key"][0])
    if kind == "vec":
        if "rows" not in sel:
            return list(range(n))
        return [a % n for a in sel["rows"]]
    if kind == "sel":
        spec = sel["rows"]
        if "label" in spec:
            return [spec["label"] - 1]
        if "labels" in spec:
            return [x - 1 for x in spec["labels"]]
        a, b = spec["lslice"]
        return list(range(a - 1, b))
    if kind == "ellipsis":
        return list(range(n))
    if kind == "chain":
        # compose on an index vector; anything numpy rejects -> unknown
        try:
            rows = np.arange(n)
            for step in sel["steps"]:
                if "rows" in step and rows.ndim == 1:
                    rows = rows[to_indexer(step["rows"])]
            return [int(x) for x in np.atleast_1d(rows)]
        except Exception:  # noqa: BLE001
            return None
    return None


def index_class(ix, n):
    if ix is None:
        return "none"
    if "int" in ix:
        return "negint" if ix["int"] < 0 else "int"
    if "slice" in ix:
        a, b, s = ix["slice"]
        empty = len(range(n)[slice(a, b, s)]) == 0
        if empty:
            return "emptyslice"
        if s is not None and s < 0:
            return "negstep"
        if (a, b, s) == (None, None, None):
            return "full"
        return "stepslice" if s not in (None, 1) else "slice"
    if "arr" in ix:
        if not ix["arr"]:
            return "emptyarr"
        if any(a < 0 for a in ix["arr"]):
            return "negarr"
        if len(set(ix["arr"])) < len(ix["arr"]):
            return "reparr"
        if sorted(ix["arr"]) != list(ix["arr"]):
            return "unsortedarr"
        return "arr"
    if "mask" in ix:
        return "mask" if any(ix["mask"]) else "falsemask"
    return "?"


def classify(sel, n, p):
    kind = sel["kind"]
    if kind == "isel":
        return f"isel[{index_class(sel.get('rows'), n)},{index_class(sel.get('columns'), p)}]"
    if kind == "getitem":
        return f"getitem[{index_class(sel['key'][0], n)},{index_class(sel['key'][1], p)}]"
    if kind == "vec":
        return "vec[" + ",".join(d for d in ("rows", "columns") if d in sel) + "]"
    if kind == "sel":
        return "sel[" + next(iter(sel["rows"])) + "]"
    if kind == "chain":
        return "chain[%d]" % len(sel["steps"])
    return kind
