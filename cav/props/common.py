"""helpers shared by the property modules"""
import copy

from ..oracle import Violation, exc_text


def rpc_choices(n):
    """interesting records_per_chunk values for an image of n lines: (label, value)"""
    out = [("one", 1), ("two", 2), ("n-1", max(n - 1, 1)), ("n", n), ("n+1", n + 1),
           ("huge", 10**9), ("default", 1024)]
    divs = [d for d in range(2, n) if n % d == 0]
    nondivs = [d for d in range(2, n) if n % d != 0]
    if divs:
        out.append(("divisor", divs[len(divs) // 2]))
    if nondivs:
        out.append(("nondivisor", nondivs[len(nondivs) // 2]))
    return out


def rpc_relation(n, r):
    if r > n:
        return "r>N"
    if r == n:
        return "r=N"
    if n % r == 0:
        return "r|N"
    return "r<N,nondiv"


def pick_rpc(rng, n):
    return rng.choice(rpc_choices(n))[1]


def outcome(sim, violations, keys, stats=None, extra=None):
    out = {"violations": [v.to_json() for v in violations], "keys": sorted(set(keys)),
           "stats": stats or {}, "faults": dict(sim.faults), "probes": dict(sim.probes),
           "steps": len(sim.log), "digest": sim.digest()}
    if extra:
        out.update(extra)
    return out


def with_(plan, **kw):
    c = copy.deepcopy(plan)
    c.update(kw)
    return c


def concurrent_calls(calls, seed, budget=400000, switch_p=None):
    """run the given {name: callable} as actors of one seeded schedule (decision points: every
    file operation, lock wait and sleep); returns (results, errors, sched)"""
    import random

    from ..sched import Sched

    rng = random.Random(seed)
    s = Sched(rng=rng, switch_p=switch_p if switch_p is not None else rng.choice([1.0, 0.5, 0.2]),
              max_steps=budget)
    for name, fn in calls.items():
        s.spawn(name, fn)
    s.run(wall_timeout=800)
    return dict(s.res), dict(s.err), s
