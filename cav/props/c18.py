"""C18 fail-stop under truncation and missing files - storage fault injection (DESIGN 3.6)."""
from .. import synth, world
from ..oracle import Violation, bits_of, exc_text, tree_diff
from ..sched import Sched
from ..sim import SIM, SimAbort
from . import common

ID = "C18"
LEVEL = "fault_enumeration"
EVENT_BUDGET = 20000
MAX_SLEEP_S = 60.0
RULE = ("seeded runs; a run = product x back-end x records_per_chunk x a list of single storage "
        "faults applied one at a time to a pristine copy: missing(summary|VOL|LED|IMG_k|TRL) and "
        "trunc(VOL|LED|IMG_k, k) with k in {0,1,719,720,721,size-1, first pixel byte of the last "
        "record} + every record boundary b and b-1,b+1 (all of them for images of <= 12 lines, "
        "sampled above) + random interior points, and eio(file, n) = the n-th read request on that "
        "file fails once with EIO (recorded back-ends); thorough adds runs that cut one small image at "
        "every 4th byte (the phase varies from run to run); each fault is one evaluation; distinct key = (file kind, cut class, relation "
        "of r to N, outcome class, level)")
EXHAUSTIVE = {"quick": False, "thorough": False}
ASSUMPTIONS = [
    "no cache is present and use_cache is left at its default",
    "a truncated summary is not injected (the property does not list it)",
    "an injected read error (EIO) is held to the same rule as a truncation: raise, or return the "
    "right tree - never a tree with an image that is short or does not load",
    "a call that returns must return a tree identical to the undamaged reference whose every image "
    "loads with the declared shape and the truth values (a cut in a region the reader never uses "
    "is legitimately invisible); any Exception is accepted for truncation, an OSError for a "
    "missing file",
    "'terminates promptly' = the damaged open (and the loads that judge a returned tree) finish "
    "within %d + 10 x the simulator events the undamaged open + full load needed, and sleeps "
    "(virtual time) of at most %d s in total" % (EVENT_BUDGET, MAX_SLEEP_S),
]


def n_runs(tier):
    return 320 if tier == "quick" else 4000


def _image_cuts(rng, ext, size, limit):
    pts = {0, 1, 719, 720, 721, size - 1, ext[-1][1], ext[-1][1] + 1}
    bounds = [e[2] for e in ext[:-1]]          # interior record boundaries
    if len(bounds) > 12:
        bounds = rng.sample(bounds, 12)
    for b in bounds:
        pts.update((b - 1, b, b + 1))
    for e in (rng.sample(ext, min(len(ext), 4))):
        pts.add(rng.randint(e[0], e[1]))       # inside a prefix
        if e[2] - 1 > e[1]:
            pts.add(rng.randint(e[1], e[2] - 1))   # inside pixel data
    pts = sorted(k for k in pts if 0 <= k < size)
    if limit and len(pts) > limit:
        keep = {0, 720, size - 1}
        rest = [k for k in pts if k not in keep]
        pts = sorted(keep | set(rng.sample(rest, limit - len(keep))))
    return pts


def generate(rng, tier, index):
    exhaustive = tier == "thorough" and index % 40 == 0
    if exhaustive:
        wp = world.gen_world_plan(rng, max_images=2, max_lines=3, max_pixels=3, large=0.0, huge=0.0)
        for im in wp["images"]:
            im["lines"] = rng.randint(1, 3)
            im["pixels"] = rng.randint(1, 3)
        if (wp.get("prefix") or {}).get("trailing") == "block":
            # media padding up to a 32 kB block would make this a 32 768-cut run (the cause of the
            # harness wall-limit errors of the thorough tier): short padding here
            wp["prefix"]["trailing"] = "short"
    else:
        wp = world.gen_world_plan(rng, max_images=3, max_lines=24, huge=0.03)
    prod = synth.build(wp)
    n = rng.choice(wp["images"])["lines"]
    r = common.pick_rpc(rng, n)
    faults = []
    if exhaustive:
        img = rng.choice(prod.images)
        # every 4th byte, the phase varies from run to run (a run that cuts at EVERY byte of even
        # a 2 kB image needs minutes and came close to the wall limit on a loaded machine)
        faults = [{"kind": "trunc", "file": img, "at": k}
                  for k in range(rng.randrange(4), len(prod.files[img]), 4)]
        return {"world": wp, "rpc": r, "faults": faults, "exhaustive_file": img}
    budget = 22 if tier == "quick" else 40
    for f in ["summary.txt", prod.vol, prod.led, prod.trl] + prod.images:
        if rng.random() < 0.5:
            faults.append({"kind": "missing", "file": f})
    img = rng.choice(prod.images)
    for k in _image_cuts(rng, prod.extents[img], len(prod.files[img]), budget - len(faults) - 6):
        faults.append({"kind": "trunc", "file": img, "at": k})
    lb = synth.leader_boundaries(wp.get("n_att", 3), wp.get("n_ch", 2), wp.get("map_proj", True),
                                 tuple(wp.get("fac_len", (100, 200, 300, 400))))
    led_pts = {0, 1, 12, 720, lb[-1] - 1}
    b = rng.choice(lb[:-1])
    led_pts.update((b - 1, b, b + 1, rng.randrange(lb[-1])))
    led_cuts = set(rng.sample(sorted(led_pts), 3))
    # and inside the tail of the leader (auxiliary facility records), where a reader that locates
    # records from the end of the file would look
    for _ in range(3):
        led_cuts.add(rng.randrange(lb[-6], lb[-1]))
    for k in sorted(led_cuts):
        faults.append({"kind": "trunc", "file": prod.led, "at": k})
    vsize = len(prod.files[prod.vol])
    # the volume directory is made of 360-byte records: two of its record boundaries every run
    vbounds = list(range(360, vsize, 360))
    for k in sorted({rng.choice([0, 1, 359, 360, 361, vsize - 360, vsize - 1]),
                     rng.randrange(vsize)} | set(rng.sample(vbounds, min(2, len(vbounds))))):
        faults.append({"kind": "trunc", "file": prod.vol, "at": k})
    if wp["backend"] in world.RECORDED:
        # an I/O error on the n-th read request of one file (the storage answers EIO once)
        n_req = 2 + -(-n // max(min(r, n), 1))
        for f in ("summary.txt", prod.vol, prod.led, img, img):
            if rng.random() < 0.6:
                faults.append({"kind": "eio", "file": f,
                               "nth": rng.randrange(n_req) if f == img else 0})
    return {"world": wp, "rpc": r, "faults": faults}


def cut_class(prod, f, k):
    if f in prod.images:
        ext = prod.extents[f]
        if k < 720:
            return "descriptor"
        if k == 720:
            return "descriptor-end"
        for (a, d, b) in ext:
            if k == b and b != ext[-1][2]:
                return "boundary"
            if k == b - 1:
                return "boundary-1"
            if k == a + 1 and a != 720:
                return "boundary+1"
            if a <= k < d:
                return "in-prefix"
            if d <= k < b:
                return "in-pixels-last" if (a, d, b) == ext[-1] else "in-pixels"
        return "other"
    return "interior" if k else "empty"


def file_kind(prod, f):
    if f in prod.images:
        return "IMG"
    return {"summary.txt": "summary", prod.vol: "VOL", prod.led: "LED", prod.trl: "TRL"}[f]


def execute(plan):
    w = world.World(plan["world"])
    prod = w.product
    r = plan["rpc"]
    violations, keys, stats = [], [], {}

    def bump(k):
        stats[k] = stats.get(k, 0) + 1

    try:
        try:
            m_ref = SIM.mark()
            ref = w.open(records_per_chunk=r)
            for _, da in [(g, ref["imagery"][prod.groups[i]]["data"]) for g, i in
                          zip(prod.images, prod.images)]:
                da.values
        except Exception as e:  # noqa: BLE001 - undamaged product does not open: not C18's matter
            bump("reference-raised:" + type(e).__name__)
            return common.outcome(SIM, violations, keys, stats)
        # "promptly" = within a multiple of the events the undamaged open + full load needed
        budget = EVENT_BUDGET + 10 * (SIM.mark() - m_ref)
        n0 = prod.truth[prod.images[0]].shape[0]
        rel = common.rpc_relation(n0, r)
        retried = 0
        for fault in plan["faults"]:
            f = fault["file"]
            original = prod.files[f]
            kind = file_kind(prod, f)
            if fault["kind"] == "missing":
                w.remove_file(f)
                cc = "missing"
            elif fault["kind"] == "eio":
                SIM.read_fault = {"file": f, "nth": fault["nth"]}
                cc = "eio" if fault["nth"] < 2 else "eio-late"
            else:
                w.write_file(f, original[:fault["at"]])
                cc = cut_class(prod, f, fault["at"])
            if fault["kind"] != "eio":      # eio is counted when it actually fires
                SIM.fault(fault["kind"])
            site = f"{kind}:{cc}"
            start = SIM.mark()
            clock0 = SIM.clock
            SIM.max_events = start + budget
            tree = err = None
            try:
                tree = w.open(records_per_chunk=r)
            except SimAbort:
                err = "budget"
            except Exception as e:  # noqa: BLE001
                err = e
            except BaseException as e:  # noqa: BLE001
                violations.append(Violation(ID, "base-exception", site, {
                    "fault": fault, "error": exc_text(e), "rpc": r}))
                err = e
            finally:
                if fault["kind"] == "eio":
                    bump("eio-fired" if SIM.read_fault.get("fired") else "eio-not-reached")
                SIM.read_fault = None
            slept = SIM.clock - clock0
            if err == "budget":
                violations.append(Violation(ID, "no-prompt-termination", site, {
                    "fault": fault, "events": budget, "rpc": r}))
                outcome = "budget"
            elif slept > MAX_SLEEP_S:
                # sleeps pass virtual time: a call that waits this long in total is not prompt
                violations.append(Violation(ID, "no-prompt-termination", site + ":slept", {
                    "fault": fault, "virtual_seconds_slept": round(slept, 3), "rpc": r}))
                outcome = "slept"
            elif err is not None:
                outcome = "raised"
                if fault["kind"] == "missing" and isinstance(err, Exception) \
                        and not isinstance(err, OSError):
                    violations.append(Violation(ID, "missing-not-oserror", site, {
                        "fault": fault, "error": exc_text(err), "rpc": r}))
            else:
                outcome = "returned"
                problems = []
                for name in prod.images:
                    truth = prod.truth[name]
                    try:
                        da = tree["imagery"][prod.groups[name]]["data"]
                        declared = tuple(da.shape)
                        vals = da.values
                    except SimAbort:
                        problems.append(f"{name}: load exceeded the event budget")
                        continue
                    except Exception as e:  # noqa: BLE001
                        problems.append(f"{name}: image does not load: {exc_text(e)}")
                        continue
                    if tuple(vals.shape) != declared:
                        problems.append(f"{name}: loaded shape {vals.shape} != declared {declared}")
                        continue
                    if declared != truth.shape[:2]:
                        problems.append(f"{name}: declared shape {declared} != header "
                                        f"{truth.shape[:2]}")
                        continue
                    b = bits_of(vals, prod.level)
                    if b is None or (b != truth).any():
                        problems.append(f"{name}: pixel values differ from the file")
                if not problems:
                    try:
                        problems = tree_diff(ref, tree)
                    except SimAbort:
                        problems = ["comparison exceeded the event budget"]
                if problems:
                    violations.append(Violation(ID, "wrong-tree", site, {
                        "fault": fault, "problems": problems[:4], "rpc": r,
                        "lines": [int(prod.truth[i].shape[0]) for i in prod.images]}))
            if outcome == "raised" and fault["kind"] != "eio" and retried < 2 and \
                    (len(keys) + r) % 3 == 0:
                # the same damaged product is opened once more, by ANOTHER thread of the process
                # (a retry on another pool worker): whatever the failed open left behind must not
                # keep that one from terminating
                retried += 1
                SIM.max_events = SIM.mark() + budget
                s2 = Sched(script=[], max_steps=budget)
                s2.spawn("T2", lambda: w.open(records_per_chunk=r))
                try:
                    s2.run(wall_timeout=800)
                except SimAbort:
                    pass
                bump("retries-in-another-thread")
                if s2.deadlock or s2.budget or ("T2" not in s2.err and "T2" not in s2.res):
                    violations.append(Violation(ID, "no-prompt-termination", site + ":retry-in-other-thread", {
                        "fault": fault, "rpc": r, "deadlock": bool(s2.deadlock),
                        "blocked": sorted(s2.blocked)}))
                    outcome = "retry-hang"
                elif "T2" in s2.res:
                    # (a retry that returns is held to the same rule as the first call would be)
                    try:
                        problems = tree_diff(ref, s2.res["T2"])
                    except Exception as e:  # noqa: BLE001
                        problems = [exc_text(e)]
                    if problems:
                        violations.append(Violation(ID, "wrong-tree", site + ":retry-in-other-thread", {
                            "fault": fault, "problems": problems[:4], "rpc": r}))
            SIM.max_events = 10**9
            keys.append(f"{kind}|{cc}|{rel}|{outcome}|{prod.level}")
            bump("evaluations")
            bump("outcome:" + outcome)
            # restore the pristine file
            w.write_file(f, original)
            if outcome in ("budget", "retry-hang"):
                break       # one hang per run is enough (each costs up to the wall limit)
        return common.outcome(SIM, violations, keys, stats, {"evaluations": len(plan["faults"])})
    finally:
        w.destroy()


def shrink(plan):
    fl = plan["faults"]
    if len(fl) > 1:
        half = len(fl) // 2
        yield common.with_(plan, faults=fl[:half], exhaustive_file=None)
        yield common.with_(plan, faults=fl[half:], exhaustive_file=None)
        for k in range(len(fl)):
            yield common.with_(plan, faults=[fl[k]], exhaustive_file=None)
    for r in (1, 2):
        if plan["rpc"] != r:
            yield common.with_(plan, rpc=r)
    for key in ("dirs", "trailing_slash", "extra_files"):
        if plan["world"].get(key):
            yield common.with_(plan, world=common.with_(plan["world"], **{key: type(
                plan["world"][key])()}))
    if plan["world"]["backend"] != "simfs":
        yield common.with_(plan, world=common.with_(plan["world"], backend="simfs"))
