"""cav - deterministic simulation harness for xarray-ceos-alos2 (see /verif/DESIGN.md)."""
