"""Independent CEOS ALOS-2 product synthesiser (reference model of the file content).

Byte offsets below are literal constants taken from the JAXA CEOS format description
(PALSAR-2 Level 1.1/1.5/2.1/3.1 CEOS SAR Product Format Description).  The module never
imports ``ceos_alos2``: a change to a struct of the code under test cannot move the bytes
this module writes.

``build(plan)`` -> ``Product`` with
  files   : {file name: bytes}
  images  : [image file names in summary order]
  groups  : {image file name: expected group name under /imagery}
  truth   : {image file name: ndarray}   IU2: (N,P) uint16;  C*8: (N,P,2) uint32 bit patterns
  extents : {image file name: [(rec_start, data_start, rec_end), ...]} one per line
"""
import json
import os
import random
import struct

import numpy as np

# (offset, width) of the few ASCII fields that must be filled
LEADER_FD_MAP_PROJ_COUNT = (192, 6)
DSS = {
    "scene_center_time": (68, 32),
    "base_band_conversion_flag": (758, 4),
    "range_compression_flag": (762, 4),
    "echo_tracker_status": (930, 4),
    "weighting_function_in_azimuth": (1270, 32),
    "weighting_function_in_range": (1302, 32),
    "clutter_lock_applied_flag": (1678, 4),
    "auto_focusing_applied_flag": (1682, 4),
}
MAP_PROJ_DESIGNATOR = (412, 32)
PP = {
    "orbital_elements_designator": (12, 32),
    "date": (144, 12),
    "day_of_year": (156, 4),
    "seconds_of_day": (160, 22),
    "leap_second_flag": (4100, 1),
}
DQ_NUMBER_OF_CHANNELS = (26, 4)
F5_PRF_SWITCHING_FLAG = (452, 4)
VD_CREATION = (112, 16)
VD_N_FILE_POINTERS = (160, 4)
IMG_FD = {
    "number_of_sar_data_records": (180, 6),
    "sar_data_record_length": (186, 6),
    "number_of_lines_per_dataset": (236, 8),
    "number_of_data_groups_per_line": (248, 8),
    "sar_data_format_type_code": (428, 4),
}
SIGNAL_ACQ_US = 84  # 8-byte big-endian microseconds of day, level 1.1 prefix

PREFIX = {"1.1": 544, "1.5": 192, "3.1": 192}
PRODUCT_ID = {"1.1": "WBDR1.1__D", "1.5": "WBDR1.5RUD", "3.1": "WBDR3.1RUD"}
SUMMARY_TAG = {"1.1": "L11", "1.5": "L15", "3.1": "L31"}
SCENE = "ALOS2014410740-200229"

FLOAT_SPECIALS = [
    0x7FC00000,  # quiet NaN
    0x7FC12345,  # NaN with payload
    0xFFC00001,  # negative NaN with payload
    0x7F800000,  # +inf
    0xFF800000,  # -inf
    0x80000000,  # -0.0
    0x00000000,  # +0.0
    0x00000001,  # smallest denormal
    0x7F7FFFFF,  # largest finite
    0xFF7FFFFF,
]
INT_SPECIALS = [0, 65535, 1, 65534, 32768, 255, 256]


def _put(buf, field, text):
    off, width = field
    t = str(text)
    assert len(t) <= width, (field, t)
    buf[off:off + width] = t.rjust(width).encode("ascii")


def _putl(buf, field, text):
    off, width = field
    t = str(text)
    assert len(t) <= width, (field, t)
    buf[off:off + width] = t.ljust(width).encode("ascii")


def _preamble(seq, t1, rt, t2, t3, length):
    return struct.pack(">IBBBBI", seq, t1, rt, t2, t3, length)


def _rec(size, seq=1, codes=(18, 10, 18, 20)):
    b = bytearray(b" " * size)
    b[:12] = _preamble(seq, *codes, size)
    return b


def leader(n_att=3, n_ch=2, map_proj=True, fac_len=(100, 200, 300, 400)):
    fd = _rec(720)
    _put(fd, LEADER_FD_MAP_PROJ_COUNT, 1 if map_proj else 0)
    dss = _rec(4096)
    _put(dss, DSS["scene_center_time"], "20200229123456789")
    for f in ("base_band_conversion_flag", "range_compression_flag", "echo_tracker_status",
              "clutter_lock_applied_flag", "auto_focusing_applied_flag"):
        _putl(dss, DSS[f], "YES")
    _putl(dss, DSS["weighting_function_in_azimuth"], "1")
    _putl(dss, DSS["weighting_function_in_range"], "1")
    parts = [fd, dss]
    if map_proj:
        mp = _rec(1620)
        _putl(mp, MAP_PROJ_DESIGNATOR, "UTM-PROJECTION")
        parts.append(mp)
    pp = _rec(4680)
    _putl(pp, PP["date"], "2020  2 29")
    _put(pp, PP["day_of_year"], "60")
    _put(pp, PP["seconds_of_day"], "45296.789")
    _put(pp, PP["leap_second_flag"], "0")
    _putl(pp, PP["orbital_elements_designator"], "2")
    parts.append(pp)
    att = _rec(16384)
    att[12:16] = str(n_att).rjust(4).encode()
    for i in range(n_att):
        o = 16 + i * 120
        att[o:o + 4] = b"  60"
        att[o + 4:o + 12] = str(45296789 + i).rjust(8).encode()
    parts.append(att)
    parts.append(_rec(9860))  # radiometric data
    dq = _rec(1620)
    _put(dq, DQ_NUMBER_OF_CHANNELS, n_ch)
    parts.append(dq)
    for k, fl in enumerate(fac_len):
        parts.append(_rec(fl, seq=k + 1))
    f5 = _rec(5000)
    _put(f5, F5_PRF_SWITCHING_FLAG, "0")
    parts.append(f5)
    _fill_leader(parts, n_att, n_ch, map_proj)
    return b"".join(bytes(p) for p in parts)


def _leader_layout():
    global LEADER_LAYOUT
    if LEADER_LAYOUT == "unread":
        try:
            with open(os.path.join(os.path.dirname(os.path.abspath(__file__)),
                                   "leader_layout.json")) as f:
                LEADER_LAYOUT = json.load(f)
        except FileNotFoundError:
            LEADER_LAYOUT = None
    return LEADER_LAYOUT


LEADER_LAYOUT = "unread"


def _fill_leader(parts, n_att, n_ch, map_proj):
    """every ASCII field of the leader that the synthesiser left blank gets a fixed, typed text
    (table made once by tools/make_leader_layout.py): a record decoded as a record of another
    kind, or fields taken from the wrong place, then show in the metadata groups"""
    layout = _leader_layout()
    if not layout:
        return
    names = ["file_descriptor", "dataset_summary"] + (["map_projection"] if map_proj else []) \
        + ["platform_position", "attitude", "radiometric_data", "data_quality_summary",
           "fac1", "fac2", "fac3", "fac4", "fac5"]
    for name, buf in zip(names, parts):
        for off, w, text, inst, path in layout.get(name, ()):
            if name == "attitude" and "data_points" in path and inst >= n_att:
                continue
            if "nominal_relative_radiometric_calibration_uncertainty" in path and inst >= n_ch:
                continue
            if off + w <= len(buf) and not bytes(buf[off:off + w]).strip():
                buf[off:off + w] = text.encode("ascii")
        if name in ("fac1", "fac2", "fac3", "fac4") and len(buf) > 70:
            t = ("FACILITY DATA " + name[-1]).encode()
            buf[66:66 + min(len(t), len(buf) - 66)] = t[:len(buf) - 66]


def leader_boundaries(n_att=3, n_ch=2, map_proj=True, fac_len=(100, 200, 300, 400)):
    """byte offsets at which a leader record ends (the last one is the file size)"""
    sizes = [720, 4096] + ([1620] if map_proj else []) + [4680, 16384, 9860, 1620] \
        + list(fac_len) + [5000]
    out, pos = [], 0
    for sz in sizes:
        pos += sz
        out.append(pos)
    return out


def volume(n_fp=4, names=None, sizes=None, pid="WBDR1.1__D"):
    """volume directory as delivered: every record carries its usual text (a record decoded as a
    record of another kind, or a record taken from the wrong place, then shows in the tree)"""
    v = _rec(360, seq=1, codes=(192, 192, 18, 18))
    _putl(v, (12, 2), "A")
    _putl(v, (16, 12), "CEOS-SAR")
    _putl(v, (28, 2), "A")
    _putl(v, (30, 2), "A")
    _putl(v, (32, 12), "001.001")
    _putl(v, (44, 16), "PHYS-VOL-0001")
    _putl(v, (60, 16), "LOGI-VOL-0002")
    _putl(v, (76, 16), "ALOS2-VOLSET")
    for off, val in ((92, 1), (94, 1), (96, 1), (98, 1)):
        _put(v, (off, 2), val)
    for off, val in ((100, 1), (104, 1), (108, 1)):
        _put(v, (off, 4), val)
    _put(v, VD_CREATION, "2020022912345678")
    _putl(v, (128, 12), "JAPAN")
    _putl(v, (140, 8), "JAXA")
    _putl(v, (148, 12), "SCMO")
    _put(v, VD_N_FILE_POINTERS, n_fp)
    _put(v, (164, 4), 1)
    parts = [v]
    for k in range(n_fp):
        f = _rec(360, seq=k + 2, codes=(219, 192, 18, 18))
        name = (names[k] if names else "FILE%02d" % k)
        size = (sizes[k] if sizes else 720)
        _putl(f, (12, 2), "A")
        _put(f, (16, 4), k + 1)
        _putl(f, (20, 16), name[:16])
        kind = name[:3]
        _putl(f, (36, 28), {"LED": "SAR LEADER FILE", "IMG": "IMAGERY OPTIONS FILE",
                            "TRL": "SAR TRAILER FILE"}.get(kind, "VOLUME DIRECTORY FILE"))
        _putl(f, (64, 4), {"LED": "SARL", "IMG": "IMOP", "TRL": "SART"}.get(kind, "VOLD"))
        _putl(f, (68, 28), "MIXED BINARY AND ASCII")
        _putl(f, (96, 4), "MBAA")
        _put(f, (100, 8), k + 2)
        _put(f, (108, 8), 720)
        _put(f, (116, 8), min(size, 99999999))
        _putl(f, (124, 12), "VARIABLE LEN")
        _putl(f, (136, 4), "VARE")
        _put(f, (140, 2), 1)
        _put(f, (142, 2), 1)
        _put(f, (144, 8), 1)
        _put(f, (152, 8), k + 2)
        parts.append(f)
    t = _rec(360, seq=n_fp + 2, codes=(18, 63, 18, 18))
    _putl(t, (12, 2), "A")
    _putl(t, (16, 40), "PRODUCT:" + pid)
    _putl(t, (56, 60), "PROCESS:JAPAN-JAXA-ALOS2-SCMO 20200229 123456")
    _putl(t, (116, 40), "TAPE ID:PHYS-VOL-0001")
    _putl(t, (156, 40), "ORBIT:" + SCENE)
    _putl(t, (196, 40), "FRAME:RSP123 0730")
    parts.append(t)
    return b"".join(bytes(p) for p in parts)


DAY_MS = 86400000


# per-line prefix fields (offset of a big-endian uint32) that the reader keeps as one value per line
NUMERIC_FIELDS = {
    "1.5": [56] + list(range(64, 108, 4)) + list(range(132, 160, 4)) + [164, 168, 176, 180],
    "1.1": [56] + list(range(68, 84, 4)) + [92] + list(range(100, 124, 4))
    + list(range(132, 216, 4)) + [216, 220],
}
# per-line fields that the reader reduces to ONE value per image (taken from the first line)
REDUCED_FIELDS = {"1.5": [16, 32, 60, 128], "1.1": [16, 32, 60]}
NUMERIC_FIELDS["3.1"] = NUMERIC_FIELDS["1.5"]
REDUCED_FIELDS["3.1"] = REDUCED_FIELDS["1.5"]
UPDATE_FLAG_11 = 128      # enum repeat=0 / update=1


def image(truth, level, t0_ms=45296789, dt_ms=1, style=None, seed=0):
    """truth: IU2 (N,P) uint16 / C*8 (N,P,2) uint32 bit patterns -> (bytes, extents)

    line i is stamped t0_ms + i*dt_ms milliseconds after 2020-02-29T00:00 (day of year 60): an
    acquisition may cross midnight, in which case day-of-year advances and the time of day wraps"""
    n_lines, n_px = truth.shape[:2]
    prefix = PREFIX[level]
    if level == "1.1":
        code, rt, bpp = "C*8", 10, 8
        raw = truth.astype(">u4")
    else:
        code, rt, bpp = "IU2", 11, 2
        raw = truth.astype(">u2")
    reclen = prefix + n_px * bpp
    h = _rec(720)
    _put(h, IMG_FD["number_of_sar_data_records"], n_lines)
    _put(h, IMG_FD["sar_data_record_length"], reclen)
    _put(h, IMG_FD["number_of_lines_per_dataset"], n_lines)
    _put(h, IMG_FD["number_of_data_groups_per_line"], n_px)
    _putl(h, IMG_FD["sar_data_format_type_code"], code)
    # the remaining descriptor fields as real products carry them (consistent with the geometry)
    for field, value in (((216, 4), 32 if level == "1.1" else 16), ((220, 4), 2 if level == "1.1" else 1),
                         ((224, 4), bpp), ((232, 4), 1), ((244, 4), 0), ((256, 4), 0),
                         ((260, 4), 0), ((264, 4), 0), ((272, 2), 1), ((274, 2), 1),
                         ((276, 4), prefix), ((280, 8), n_px * bpp), ((288, 4), 0),
                         ((432, 4), 0), ((436, 4), 0)):
        _put(h, field, value)
    _putl(h, (268, 4), "BSQ")
    _putl(h, (400, 28), "COMPLEX REAL*4" if level == "1.1" else "UNSIGNED INTEGER*2")
    if level != "1.1" and (style or {}).get("max_range", True):
        _put(h, (440, 8), 65535)
    lpb = (style or {}).get("lines_per_burst")
    if lpb and level == "1.1":
        # ScanSAR SPECAN burst layout (attributes of the image group)
        _put(h, (448, 4), -(-n_lines // lpb))
        _put(h, (452, 4), lpb)
        _put(h, (456, 4), (style or {}).get("burst_overlap", 0))
    out = [bytes(h)]
    extents = []
    pos = 720
    prng = random.Random(seed * 7919 + 13)
    for i in range(n_lines):
        r = bytearray(prefix)
        r[:12] = _preamble(i + 2, 50, rt, 18, 20, reclen)
        r[12:16] = struct.pack(">I", i + 1)   # line number
        r[16:20] = struct.pack(">I", 1)       # record index
        t = t0_ms + i * dt_ms
        r[36:48] = struct.pack(">III", 2020, 60 + t // DAY_MS, t % DAY_MS)
        if level == "1.1":
            r[SIGNAL_ACQ_US:SIGNAL_ACQ_US + 8] = struct.pack(">Q", (t % DAY_MS) * 1000 + 7)
        if style:
            _style_prefix(r, i, n_px, level, dict(style, n_lines=n_lines), prng)
            dates = style.get("dates", "normal")
            if (dates == "filler-first" and i == 0) or (dates == "filler-some"
                                                        and prng.random() < 0.3):
                # placeholder date of a filler line (far outside the 1678-2262 range of
                # datetime64[ns]); legal input, decoded consistently by the reader
                r[36:48] = struct.pack(">III", prng.choice([9999, 9999, 1]), 1, 0)
        out.append(bytes(r) + raw[i].tobytes())
        extents.append((pos, pos + prefix, pos + reclen))
        pos += reclen
    trailing = (style or {}).get("trailing")
    if trailing == "short":
        out.append(b"\0" * max(reclen // 3, 1))
    elif trailing == "records":
        out.append(b"\0" * (reclen * 2 + 5))
    elif trailing == "block":
        out.append(b"\0" * ((-pos) % 32768))
    return b"".join(out), extents


def _style_prefix(r, i, n_px, level, style, prng):
    """swarm-varied content of the line prefix; whatever the prefix says, every stored sample of
    the line remains part of the image (fill pixels are samples too)"""
    fill = style.get("fill", "zero")
    if fill == "all-data":
        r[20:32] = struct.pack(">III", 0, n_px, 0)
    elif fill == "consistent":
        left = prng.randrange(0, n_px + 1) if prng.random() < 0.5 else 0
        right = prng.randrange(0, n_px - left + 1)
        if prng.random() < 0.3:
            right = n_px - left       # no data pixels at all in this line
        r[20:32] = struct.pack(">III", left, n_px - left - right, right)
    elif fill == "inconsistent":
        r[20:32] = struct.pack(">III", prng.randrange(4), prng.randrange(n_px + 3),
                               prng.randrange(4))
    flags = style.get("flags", "constant")
    if flags != "constant":
        for off in REDUCED_FIELDS[level]:
            if flags == "first-line":
                v = 1 if i == 0 else 0
            elif flags == "last-line":
                v = 0 if i == 0 else (1 if prng.random() < 0.2 else 0)
            else:
                v = prng.randrange(3)
            if off == 16:
                v += 1
            r[off:off + 4] = struct.pack(">I", v)
        if level == "1.1":
            r[UPDATE_FLAG_11:UPDATE_FLAG_11 + 4] = struct.pack(
                ">I", (1 if i == 0 else 0) if flags == "first-line" else prng.randrange(2))
    numeric = style.get("numeric")
    if numeric == "varying":
        for off in NUMERIC_FIELDS[level]:
            r[off:off + 4] = struct.pack(">I", prng.randrange(2**31))
    elif numeric == "palette":
        # few distinct values that come back after a change (A A B B A A ...): a parameter
        # switched and switched back
        k = (i // max(style.get("period", 2), 1)) % 2
        for off in NUMERIC_FIELDS[level]:
            r[off:off + 4] = struct.pack(">I", 1900000 + 200000 * k + off)
    elif numeric == "on-update":
        # parameters given only on the lines whose update flag is raised, zero on "repeat" lines
        flag = 1 if i % max(style.get("period", 3), 1) == 0 else 0
        r[128:132] = struct.pack(">I", flag)
        for off in NUMERIC_FIELDS[level]:
            r[off:off + 4] = struct.pack(">I", prng.randrange(1, 2**31) if flag else 0)
    ln = style.get("line_numbers", "normal")
    if ln != "normal":
        n = style.get("n_lines", 1)
        if ln == "descending":
            v = n - i
        elif ln == "restart":
            v = i % max(style.get("period", 3), 1) + 1
        elif ln == "offset":
            v = i + 1001
        else:
            v = prng.randrange(1, 4 * n + 2)
        r[12:16] = struct.pack(">I", v)
    rn = style.get("record_numbers", "normal")
    if rn != "normal":
        # the record sequence number of the 12-byte preamble (no reader of pixels or per-line
        # metadata depends on it): gaps (records dropped by a subsetter), restarts, zero, arbitrary
        per = max(style.get("period", 3), 1)
        if rn == "gap":
            v = i + 2 + (i + per - 1) // per      # a number is skipped after lines 0, per, 2 per ...
        elif rn == "gap-once":
            v = i + 2 + (1 if i >= per else 0)
        elif rn == "restart":
            v = i % per + 2
        elif rn == "zero":
            v = 0
        else:
            v = prng.randrange(2**31)
        r[0:4] = struct.pack(">I", v)


def make_truth(level, lines, pixels, data_seed, mode, n_special):
    rng = np.random.default_rng(data_seed)
    prng = random.Random(data_seed)
    if level == "1.1":
        if mode == "bits":
            t = rng.integers(0, 2**32, (lines, pixels, 2), dtype=np.uint64).astype(np.uint32)
        else:
            f = rng.standard_normal((lines, pixels, 2)).astype(np.float32)
            t = f.view(np.uint32).copy()
        specials = FLOAT_SPECIALS
    else:
        t = rng.integers(0, 65536, (lines, pixels), dtype=np.int64).astype(np.uint16)
        specials = INT_SPECIALS
    planted = []
    for _ in range(n_special):
        i = prng.randrange(lines)
        j = prng.randrange(pixels)
        v = prng.choice(specials)
        if level == "1.1":
            c = prng.randrange(2)
            t[i, j, c] = v
            planted.append((i, j, c, v))
        else:
            t[i, j] = v
            planted.append((i, j, v))
    return t, planted


class Product:
    pass


def group_name(pol, scan):
    return pol if scan is None else f"{pol}_scan{scan[1]}"


def build(plan):
    level = plan["level"]
    pid = PRODUCT_ID[level]
    p = Product()
    p.level = level
    p.files = {}
    p.truth = {}
    p.extents = {}
    p.groups = {}
    p.images = []
    p.planted = {}
    vol = f"VOL-{SCENE}-{pid}"
    led = f"LED-{SCENE}-{pid}"
    trl = f"TRL-{SCENE}-{pid}"
    for k, im in enumerate(plan["images"]):
        name = f"IMG-{im['pol']}-{SCENE}-{pid}" + (f"-{im['scan']}" if im.get("scan") else "")
        t, planted = make_truth(level, im["lines"], im["pixels"], plan["data_seed"] * 131 + k,
                                plan.get("mode", "normal"), im.get("n_special", 0))
        data, ext = image(t, level, plan.get("t0_ms", 45296789), plan.get("dt_ms", 1),
                          style=plan.get("prefix"), seed=plan["data_seed"] * 131 + k)
        p.files[name] = data
        p.truth[name] = t
        p.extents[name] = ext
        p.groups[name] = group_name(im["pol"], im.get("scan"))
        p.planted[name] = planted
        p.images.append(name)
    names = [vol, led] + p.images + [trl]
    p.files[led] = leader(n_att=plan.get("n_att", 3), n_ch=plan.get("n_ch", 2),
                          map_proj=plan.get("map_proj", True),
                          fac_len=tuple(plan.get("fac_len", (100, 200, 300, 400))))
    p.files[trl] = b" " * 720
    p.files[vol] = b""
    p.files[vol] = volume(len(names), names, [len(p.files[n]) if n != vol else 360 * (len(names) + 2)
                                              for n in names], pid)
    p.vol, p.led, p.trl = vol, led, trl
    tag = SUMMARY_TAG[level]
    lines = ['Odi_SceneId="x"', f'Scs_SceneID="{SCENE}"', 'Scs_SceneShift="0"',
             f'Pds_ProductID="{pid}"', 'Img_SceneCenterDateTime="20200229 12:34:56.789"',
             f'Pdi_CntOf{tag}ProductFileName="{len(names)}"']
    lines += [f'Pdi_{tag}ProductFileName{i + 1:02d}="{n}"' for i, n in enumerate(names)]
    im0 = plan["images"][0]
    lines += [f'Pdi_NoOfPixels_0="{im0["pixels"]}"', f'Pdi_NoOfLines_0="{im0["lines"]}"',
              'Pdi_ProductFormat="CEOS"', 'Ach_TimeCheck=""', 'Rad_PracticeResultCode="GOOD"',
              'Lbi_ObservationDate="20200229"', 'Lbi_ProcessFacility="SCMO"']
    p.files["summary.txt"] = ("\n".join(lines) + "\n").encode()
    for extra in plan.get("extra_files", []):
        p.files[extra] = b"unrelated content\n"
    return p


# ---------------------------------------------------------------- plan generation
POLS = ["HH", "HV", "VH", "VV"]


def gen_plan(rng, max_lines=40, max_pixels=32, max_images=8, level=None, big=False, large=0.03,
             huge=0.012, n_images=None, giant=0.0, one_pol_scans=False):
    level = level or rng.choice(["1.1", "1.5", "1.5", "3.1"])
    n_img = rng.choice([1, 1, 2, 2, 3, rng.randint(1, max_images)])
    if n_images is not None:
        n_img = n_images
    scansar = rng.random() < 0.4
    combos = []
    if scansar:
        method = rng.choice("BF")
        scans = rng.sample(range(10), rng.randint(1, 5) if n_img <= 4 else rng.randint(2, 5))
        combos = [(pol, f"{method}{s}") for pol in POLS for s in scans]
    else:
        combos = [(pol, None) for pol in POLS]
    rng.shuffle(combos)
    if one_pol_scans:
        # a ScanSAR product whose image files are the scans of ONE polarisation (names that
        # differ only after the last dot / dash of the product id)
        pol = rng.choice(POLS)
        method = rng.choice("BF")
        combos = [(pol, f"{method}{k}") for k in rng.sample(range(1, 6), max(n_img, 2))]
        n_img = len(combos)
    combos = combos[:n_img]
    same_shape = rng.random() < 0.6

    def shape():
        c = rng.random()
        if c < 0.1:
            return 1, rng.randint(1, max_pixels)
        if c < 0.2:
            return rng.randint(1, max_lines), 1
        if c < 0.5:
            return rng.randint(2, 8), rng.randint(1, 8)
        if big and c < 0.55:
            return rng.randint(1500, 3000), rng.randint(1, 4)
        if c > 0.94:
            # few, very wide lines (records of up to ~32 kB)
            return rng.randint(2, 8), int(2 ** rng.uniform(5, 12))
        return rng.randint(1, max_lines), rng.randint(1, max_pixels)

    base = shape()
    if rng.random() < large:
        # an image file of 1-3 MB (several hundred records of 1.3-3 kB): byte-size thresholds
        # (request coalescing, read-ahead, block sizes) are crossed only by files like this
        base = (rng.randint(450, 900),
                rng.randint(100, 300) if level == "1.1" else rng.randint(500, 1400))
        same_shape = True
        combos = combos[:rng.choice([1, 1, 2])]
    if rng.random() < huge:
        # one image file of 5.5-10 MB made of 20-40 kB records (above the 5 MiB block size that
        # buffered / cached file objects and "big request" code paths commonly use)
        base = (rng.randint(150, 260),
                rng.randint(2500, 5000) if level == "1.1" else rng.randint(10000, 20000))
        while PREFIX[level] + base[1] * (8 if level == "1.1" else 2) < 5.6 * 2**20 / base[0]:
            base = (base[0] + 20, base[1])
        same_shape = True
        combos = combos[:1]
    if rng.random() < giant:
        # one image file of 110-140 MB made of ~1 MB records: request caps / piecewise reads with
        # limits of 64-128 MiB are crossed only by files like this (beyond that: out of reach)
        # (the descriptor's record-length field has six digits: records stay below 1 000 000 bytes)
        base = (rng.randint(118, 140),
                rng.randint(118000, 124900) if level == "1.1" else rng.randint(472000, 499900))
        same_shape = True
        combos = combos[:1]
    images = []
    for pol, scan in combos:
        n, px = base if same_shape else shape()
        images.append({"pol": pol, "scan": scan, "lines": n, "pixels": px,
                       "n_special": rng.choice([0, 1, 3, 8])})
    plan = {
        "level": level,
        "images": images,
        "mode": rng.choice(["normal", "bits"]),
        "data_seed": rng.randrange(2**31),
        "map_proj": rng.random() < 0.7,
        "n_att": rng.choice([1, 2, 3, 22, 136]),
        "n_ch": rng.choice([1, 2, 4, 16]),
        # auxiliary facility records: small, or one big blank "dummy data" record among them
        "fac_len": [rng.randint(70, 600) if rng.random() < 0.8 else rng.randint(5000, 12000)
                    for _ in range(4)],
        "extra_files": rng.choice([[], [], ["README.txt"], ["KML-browse.kml", "notes.index"]]),
    }
    # content of the per-line prefixes: fill-pixel counts, per-image flags that change from line to
    # line, numeric per-line metadata
    plan["prefix"] = {
        "fill": rng.choice(["zero", "zero", "all-data", "consistent", "consistent", "inconsistent"]),
        "flags": rng.choice(["constant", "constant", "first-line", "last-line", "random"]),
        "numeric": rng.choice(["zero", "varying", "varying", "palette", "on-update"]),
        "period": rng.choice([1, 2, 3, 4, 8]),
        "line_numbers": rng.choice(["normal"] * 6 + ["descending", "restart", "offset", "random"]),
        "dates": rng.choice(["normal"] * 5 + ["filler-first", "filler-some"]),
        "max_range": rng.random() < 0.7,
        # bytes after the last declared record (media padding); never part of the image
        "trailing": rng.choice([None] * 7 + ["short", "records", "block"]),
        "lines_per_burst": rng.choice([None, None, 2, 3, 5]) if scansar else None,
        "burst_overlap": rng.choice([0, 0, 1]),
        "record_numbers": rng.choice(["normal"] * 5 + ["gap", "gap-once", "restart", "zero",
                                                      "random"]),
    }
    # acquisition time base: mostly mid-day, sometimes crossing midnight inside the image
    n_max = max(im["lines"] for im in images)
    plan["t0_ms"] = rng.choice([45296789, 45296789, 45296789, DAY_MS - 3, DAY_MS - 1,
                                DAY_MS - max(n_max // 2, 1), 0])
    plan["dt_ms"] = rng.choice([1, 1, 1, 2, 1000])
    return plan
