"""writes /verif/MANIFEST.json from the property modules that exist"""
import importlib
import json
import os

from . import boot

CLAIMED = {
    "C01": ("exploration", "3.1",
            "Seeded simulation, mostly fault-free: every run synthesises a product "
            "(independent encoder), serves it through one of five storage back-ends with one "
            "records_per_chunk and compares every loaded sample word for word with the truth "
            "model (full load, blocks kept across later reads, a second same-named product in the "
            "same interpreter, reads through an index cache, one load under an injected read error "
            "(EIO or a transient kind); worlds from 1x1 to 140 MB files, varied descriptors, line "
            "prefixes and record numbering; one run in five with the package compiled as under "
            "python -O / -OO). Sampling, "
            "not proof; the simulator contributes back-end/request-size variation "
            "and the recorded request stream, no interleavings.",
            "seeded deterministic simulation (storage back-ends, request sizes, EIO during loads); "
            "truth-model oracle"),
    "C02": ("exploration", "3.1",
            "Seeded simulation, one actor: generated and (for small images) exhaustively enumerated "
            "index expressions are applied to the lazily opened image, to an in-memory twin and to "
            "a control backend that decides what xarray itself accepts; results must agree in "
            "shape, dims, coords and values, and results handed out earlier must still hold after "
            "later reads through the same variable.",
            "seeded deterministic simulation, operation-by-operation reference model (in-memory "
            "twin + control backend)"),
    "C06": ("exploration", "3.1",
            "Seeded simulation: within one world several opens with different records_per_chunk "
            "(cached and uncached paths) must be pairwise identical apart from "
            "preferred_chunksizes, which must be min(r, lines).",
            "seeded deterministic simulation, differential (relational) oracle"),
    "C07": ("exploration", "3.2",
            "Seeded simulation over cache producer x location x back-end x rpc with process "
            "restarts, relocation of the product with its adjacent index, partial selections through "
            "the cache and in-place modification of an earlier result by the caller; oracles over "
            "returned trees and over the recorded I/O history (no image reads at a cached open, "
            "no index reads with use_cache=False).",
            "seeded deterministic simulation with restart; differential oracle + recorded I/O "
            "history"),
    "C09": ("fault_enumeration", "3.3",
            "Fault injection at the cache write: planted prefixes (thorough: every byte length of "
            "the index document), simulated kills and ENOSPC at byte k of the n-th file or just "
            "before the n-th disk-mutating operation (mkdir/open/write chunk/close/rename/unlink) "
            "of the option or CLI writer (offsets resolved against that writer's own document), "
            "paused writers, writers that go on writing while a default open is under way "
            "(virtual time passes with scheduler steps) and two or three interleaved writers plus "
            "readers under a seeded scheduler; afterwards default opens must equal the uncached "
            "reference and create_cache must repair.",
            "deterministic simulation with fault injection (crash points x schedules), seeded "
            "search + exhaustive prefix enumeration"),
    "C10": ("exploration", "3.4",
            "Seeded random histories of open/cli/delete (index files or whole cache directories)/"
            "late-load/caller-scribble/forget/restart against "
            "a cache-state model; invariants after every step (tree == reference(rpc), product "
            "directory, user cache directory, writes anywhere else, option dictionaries).",
            "seeded deterministic simulation of operation histories against a reference model"),
    "C11": ("exploration", "3.5",
            "Recorded request history of loads and opens on instrumented storage, checked against "
            "the byte extents of line groups known from the truth model.",
            "seeded deterministic simulation on recorded storage; history oracle"),
    "C18": ("fault_enumeration", "3.6",
            "Storage faults (truncation at every record boundary +-1 and sampled interior points; "
            "every single missing file; an EIO / connection reset / timeout / EINTR on the n-th "
            "read request) crossed with "
            "records_per_chunk; the open must raise or return a fully loadable identical tree, "
            "within an event budget proportional to the undamaged open (plus a wall-clock "
            "watchdog for loops that touch no seam).",
            "deterministic simulation with storage fault injection, enumerated fault points"),
    "C19": ("exploration", "3.7",
            "Baton-passing scheduler over 2-3 real loader threads (plus any thread the code under "
            "test starts itself) on one tree / pickled copies / a second open of the product; seeded "
            "interleavings at every file "
            "operation and every contended Lock/RLock/Condition wait (uniform random, PCT, "
            "line-level pre-emption); results must equal sequential loads, no deadlock or lost "
            "wake-up, within a step budget proportional to the sequential work.",
            "deterministic simulation of thread schedules (seeded random + PCT), sequential "
            "reference"),
}

NA = {
    "C03": "pure decode of image record prefixes/descriptor: a total function of one input's bytes; "
           "no schedule, clock, fault, crash point or history in statement or quantifier - nothing "
           "for a simulator to own (needs an independent field-complete encoder + PBT instead)",
    "C04": "pure decode of ~900 ASCII leader fields; quantifier is over field values only",
    "C05": "record framing is arithmetic on lengths declared in the input; small finite domains "
           "call for enumeration/model checking, nothing to schedule or fault",
    "C08": "decode(encode(x)) is a pure function on in-memory values; its storage-facing half is "
           "covered by C07/C09",
    "C12": "typing invariant over the nodes of a returned tree; inputs only",
    "C13": "pure function of the summary's file list and names",
    "C14": "pure text -> attributes / error-group function",
    "C15": "finite-language enumeration of pure string functions",
    "C16": "pure decode of the volume directory",
    "C17": "relation between pure time decoders; the code never reads a clock, so there is no "
           "simulated-time aspect",
    "C20": "metamorphic relation on input bytes; rewriting padding is input variation, not a fault "
           "at an instant",
}


def write():
    checks = []
    na = []
    for pid, (level, ref, text, technique) in CLAIMED.items():
        try:
            importlib.import_module("cav.props." + pid.lower())
        except ImportError:
            na.append({"property_id": pid, "reason": "check not built yet in this commit (planned, "
                       "see DESIGN.md section " + ref + ")"})
            continue
        checks.append({
            "property_id": pid,
            "quick_cmd": f"./check {pid} --tier quick",
            "thorough_cmd": f"./check {pid} --tier thorough",
            "evidence_file": f"/verif/evidence/{pid}.json",
            "replay_cmd_template": f"./check {pid} --replay {{path}}",
            "engine": "cav",
            "level_claimed": {"category": level, "text": text, "design_ref": "DESIGN.md " + ref},
            "level_note": "Trusted: the synthesiser's byte layout and truth model, xarray's own "
                          "identical()/indexing as reference semantics, the simulator's seams "
                          "(simfs, byte gate, cooperative lock, scheduler). Sampling: a clean batch is "
                          "evidence, not proof.",
            "technique": technique,
        })
    for pid, reason in NA.items():
        na.append({"property_id": pid, "reason": reason})
    manifest = {
        "version": 1,
        "setup_cmd": "./check C01 --runs 4 --workers 2 >/dev/null && echo setup-ok",
        "hooks": {
            "guard": "CEOS_ALOS2_VERIF",
            "enable": "no source hooks: every seam is reachable from outside (custom fsspec protocol, "
                      "XDG_CACHE_HOME, patched open/os/threading.Lock installed by ./check before "
                      "ceos_alos2 is imported); the guard variable is not read by /repo",
            "baseline_off_cmd": "cd /repo && /venv/bin/python -m pytest -ra -q -p no:cacheprovider "
                                "--timeout=900 --continue-on-collection-errors",
            "source_commits": [],
            "add_only": True,
        },
        "engines": [{
            "name": "cav",
            "path": "/verif/cav",
            "serves_properties": [c["property_id"] for c in checks],
            "kind_free_text": "deterministic simulation with fault injection: seeded worlds "
                              "(synthesised CEOS products on simulated/real storage), byte-gated cache "
                              "writes, baton-passing thread scheduler, recorded I/O histories, "
                              "truth/differential oracles, ddmin replay files; the environment of the "
                              "simulated process is part of each seeded world (python -O/-OO for "
                              "the package, locale encoding, kind of read error)",
        }],
        "checks": checks,
        "not_applicable": sorted(na, key=lambda x: x["property_id"]),
        "notes": "All checks run /repo's working tree (VERIF_REPO overrides). Exit 0 ok / 1 violation / "
                 "2 harness error. Defects repaired by fix: commits are recorded in "
                 "known_findings.json.",
    }
    with open(os.path.join(boot.VERIF_ROOT, "MANIFEST.json"), "w") as f:
        json.dump(manifest, f, indent=1)
        f.write("\n")
    print("MANIFEST.json written:", [c["property_id"] for c in checks])
    return 0
