"""Seeded, sharded execution of simulated runs; determinism self-check; violation handling
(known findings, confirmation in a fresh interpreter, minimisation, replay files); evidence.
"""
import concurrent.futures
import faulthandler
import hashlib
import importlib
import json
import multiprocessing
import os
import random
import subprocess
import sys
import time
import traceback
import functools
import gc

print = functools.partial(print, flush=True)  # noqa: A001

from . import boot

PROPS = ["C01", "C02", "C06", "C07", "C09", "C10", "C11", "C18", "C19"]
RUN_WALL_LIMIT = 900          # seconds, per run (watchdog; a run normally takes < 5 s)
MAX_MINIMISED = 3             # violation groups that are minimised + replay-verified per check


class _Skip(Exception):
    pass
REAL_VS_STUB = {
    "real": ["ceos_alos2 (all of it, from VERIF_REPO)", "xarray (lazy indexing, DataTree, pickling, "
             "SerializableLock logic)", "fsspec core (get_mapper, FSMap, DirFileSystem, "
             "LocalFileSystem, MemoryFileSystem)", "construct", "numpy", "json", "pathlib",
             "real tmpfs files (O_TRUNC, holes) for local products and the cache directory"],
    "simulated": ["simfs:// product storage", "byte gate below write-mode files",
                  "recording proxy around read-mode files", "cooperative blocking of "
                  "threading.Lock", "scheduler (baton passing over real threads)",
                  "processes (threads + module purge stand in for OS processes; kill = no "
                  "further I/O takes effect)"],
    "not_simulated": ["power loss (page cache)", "dask-chunked loading (dask not installed)",
                      "remote object-store consistency"],
}


def load_prop(pid):
    return importlib.import_module("cav.props." + pid.lower())


def seed_for(master, pid, i):
    return int(hashlib.sha256(f"{master}:{pid}:{i}".encode()).hexdigest()[:16], 16)


def load_known():
    path = os.path.join(boot.VERIF_ROOT, "known_findings.json")
    try:
        with open(path) as f:
            return json.load(f).get("findings", [])
    except FileNotFoundError:
        return []


# ---------------------------------------------------------------------------- worker side
_WORKER = {"ready": False}


def _worker_init():
    boot.boot()
    boot.scratch_root()
    boot.purge_code_under_test()
    boot.import_code_under_test()
    try:   # fsspec's process-wide I/O loop thread: created once, outside any simulated run
        import fsspec.asyn

        fsspec.asyn.get_loop()
    except Exception:  # noqa: BLE001
        pass
    gc.disable()   # finalisers run at the explicit collection between runs, not at random points
    _WORKER["ready"] = True


def execute_plan(mod, plan):
    """run one plan; harness exceptions are reported apart from violations"""
    from .sim import SIM

    from . import world as _world

    t0 = time.time()
    if _WORKER.get("poisoned"):
        # an earlier run in this process ended in a harness error (e.g. a hang): its actor threads
        # may still be alive and would interfere with this run's storage - nothing that this
        # process reports from now on can be believed
        return {"violations": [], "digest": None, "keys": [], "stats": {}, "faults": {},
                "probes": {}, "steps": 0, "wall": 0.0,
                "harness_error": "not run: worker poisoned by an earlier harness error ("
                                 + _WORKER["poisoned"] + ")"}
    try:
        # every run starts in a fresh "process": no module state of the code under test, no
        # filesystem instance cache and no garbage of the previous run survives
        gc.collect()
        boot.OPTIMIZE = int((plan.get("world") or {}).get("optimize", 0) or 0)
        _world.restart()
        out = run_enveloped(mod, plan)
    except BaseException as e:  # noqa: BLE001
        out = {"violations": [], "digest": None, "keys": [], "stats": {}, "faults": {},
               "steps": 0, "harness_error": "".join(traceback.format_exception(e))[-3000:]}
        _WORKER["poisoned"] = type(e).__name__
    out.setdefault("violations", [])
    out.setdefault("keys", [])
    out.setdefault("stats", {})
    if isinstance(out["stats"], dict) and not out.get("harness_error"):
        key = "interpreter:-O%d" % boot.OPTIMIZE if boot.OPTIMIZE else "interpreter:default"
        out["stats"][key] = out["stats"].get(key, 0) + 1
    out.setdefault("faults", dict(SIM.faults))
    out.setdefault("probes", dict(SIM.probes))
    out.setdefault("steps", len(SIM.log))
    out.setdefault("digest", SIM.digest())
    out["wall"] = time.time() - t0
    return out


def run_enveloped(mod, plan):
    """execute(plan) runs as the single primary actor of an envelope scheduler, so that any
    thread the code under test starts on its own (a pool "optimisation", a background writer) is
    adopted as an actor and interleaved by seeded choices instead of by the OS"""
    from .sched import Sched

    seed = int(hashlib.sha256(json.dumps(plan, sort_keys=True, default=repr).encode())
               .hexdigest()[:16], 16)
    env = Sched(rng=random.Random(seed), max_steps=10**12)
    env.outer = True
    env.spawn("main", lambda: mod.execute(plan))
    env.run(wall_timeout=RUN_WALL_LIMIT - 10)
    if "main" in env.err:
        raise env.err["main"]
    return env.res["main"]


def run_indices(pid, tier, master, indices, want_plans=False):
    if not _WORKER["ready"]:
        _worker_init()
    faulthandler.dump_traceback_later(RUN_WALL_LIMIT, exit=True)
    try:
        mod = load_prop(pid)
        results = []
        for i in indices:
            faulthandler.dump_traceback_later(RUN_WALL_LIMIT, exit=True)   # re-armed per run
            seed = seed_for(master, pid, i)
            plan = mod.generate(random.Random(seed), tier, i)
            out = execute_plan(mod, plan)
            out["index"] = i
            out["seed"] = seed
            out["pid"] = os.getpid()
            upd = out.pop("plan_update", None)
            if upd and out["violations"]:
                plan = dict(plan, **upd)
            if want_plans or out["violations"] or out.get("harness_error") or i < 3:
                out["plan"] = plan
            results.append(out)
        return results
    finally:
        faulthandler.cancel_dump_traceback_later()


def _minimise_worker(pid, plan, target, budget_s):
    if not _WORKER["ready"]:
        _worker_init()
    mod = load_prop(pid)
    return minimise(mod, plan, target, budget_s)


def minimise(mod, plan, target, budget_s=90.0):
    """greedy reduction: keep a candidate only if the *same* violation class still fails"""
    t_end = time.time() + budget_s
    tried = 0

    def fails(p):
        out = execute_plan(mod, p)
        return any(v["cls"] == target["cls"] for v in out["violations"])

    shrink = getattr(mod, "shrink", None)
    if shrink is None:
        return plan, 0
    progress = True
    while progress and time.time() < t_end:
        progress = False
        for cand in shrink(plan):
            if time.time() > t_end:
                break
            tried += 1
            try:
                ok = fails(cand)
            except BaseException:  # noqa: BLE001
                ok = False
            if ok:
                plan = cand
                progress = True
                break
    return plan, tried


# ---------------------------------------------------------------------------- orchestrator
def fresh_interpreter_digests(pid, tier, master, indices, hashseed="1"):
    """re-run the given run indices in a fresh interpreter with another PYTHONHASHSEED"""
    env = dict(os.environ)
    env["PYTHONHASHSEED"] = hashseed
    env["VERIF_SEED"] = str(master)
    cmd = [os.path.join(boot.VERIF_ROOT, "check"), pid, "--tier", tier, "--seed", str(master),
           "--digest-of", ",".join(map(str, indices))]
    p = subprocess.run(cmd, env=env, capture_output=True, text=True, timeout=1200)
    if p.returncode != 0:
        raise RuntimeError(f"digest subprocess failed ({p.returncode}): {p.stderr[-2000:]}")
    line = [ln for ln in p.stdout.splitlines() if ln.startswith("DIGESTS ")][-1]
    return json.loads(line[len("DIGESTS "):])


def run_check(pid, tier, master, n_runs=None, workers=None, out=sys.stdout):
    t0 = time.time()
    mod = load_prop(pid)
    n = n_runs if n_runs is not None else mod.n_runs(tier)
    workers = workers or min(16, os.cpu_count() or 4)
    known = [k for k in load_known() if k.get("property") == pid]
    chunk = max(1, min(25, n // (workers * 6) or 1))
    batches = [list(range(s, min(s + chunk, n))) for s in range(0, n, chunk)]
    results = []
    harness_errors = []
    ctx = multiprocessing.get_context("fork")
    try:
        with concurrent.futures.ProcessPoolExecutor(workers, mp_context=ctx,
                                                    initializer=_worker_init) as ex:
            futs = [ex.submit(run_indices, pid, tier, master, b) for b in batches]
            for f in concurrent.futures.as_completed(futs):
                results.extend(f.result(timeout=RUN_WALL_LIMIT + 60))
    except Exception as e:  # noqa: BLE001 - broken pool, watchdog, ...
        harness_errors.append("worker pool failed: " + repr(e))
    results.sort(key=lambda r: r["index"])
    # pool workers leave through os._exit (no atexit): remove their scratch roots here
    import shutil

    for wpid in {r.get("pid") for r in results if r.get("pid") and r.get("pid") != os.getpid()}:
        shutil.rmtree("/dev/shm/cav-%08x" % wpid, ignore_errors=True)
    for r in results:
        if r.get("harness_error"):
            harness_errors.append(f"run {r['index']}: {r['harness_error']}")

    # ------------------------------------------------------------ aggregate
    keys = set()
    stats = {}
    faults = {}
    probes = {}
    steps = 0
    for r in results:
        keys.update(r["keys"])
        steps += r["steps"]
        for d, src in ((stats, r["stats"]), (faults, r["faults"]), (probes, r.get("probes", {}))):
            for k, v in src.items():
                d[k] = d.get(k, 0) + v
    groups = {}
    for r in results:
        for v in r["violations"]:
            g = groups.setdefault((v["cls"], v["site"]), {"first": r, "v": v, "count": 0})
            g["count"] += 1

    # ------------------------------------------------------------ determinism sample
    det = {"rerun": 0, "matching": 0}
    if results and not harness_errors:
        every = 16 if tier == "quick" else 8
        sample = [r["index"] for r in results if r["index"] % every == 0]
        if len(sample) < 8:
            sample = [r["index"] for r in results[:: max(1, len(results) // 8)]][:8]
        sample = sample[:64]
        try:
            again = fresh_interpreter_digests(pid, tier, master, sample)
            by_index = {r["index"]: r for r in results}
            for i in sample:
                det["rerun"] += 1
                if again.get(str(i)) == by_index[i]["digest"]:
                    det["matching"] += 1
                else:
                    harness_errors.append(
                        f"nondeterministic: run {i} digest {by_index[i]['digest']} vs "
                        f"{again.get(str(i))} in a fresh interpreter")
        except Exception as e:  # noqa: BLE001
            harness_errors.append("determinism re-run failed: " + repr(e))

    # ------------------------------------------------------------ violations
    n_unlisted = 0
    n_known = 0
    printed_known = set()
    violation_lines = []
    for (cls, site), g in sorted(groups.items()):
        entry = next((k for k in known if k.get("cls") == cls and k.get("site") == site
                      and k.get("status", "open") == "open"), None)
        if entry is not None:
            n_known += 1
            key = (cls, site)
            if key not in printed_known:
                printed_known.add(key)
                print(f"KNOWN-FINDING: property={pid} {entry.get('what', cls + ' @ ' + site)}"
                      f" [{g['count']} run(s), first run index {g['first']['index']}]", file=out)
            continue
        n_unlisted += 1
        path = report_violation(pid, tier, master, mod, g, harness_errors,
                                full=(n_unlisted <= MAX_MINIMISED))
        violation_lines.append(f"VIOLATION property={pid} replay={path}")
        print(f"  violation class={cls} site={site} runs={g['count']} "
              f"first_index={g['first']['index']} details={json.dumps(g['v']['details'])[:600]}",
              file=out)
        print(violation_lines[-1], file=out)

    # ------------------------------------------------------------ evidence
    wall = time.time() - t0
    samples = []
    for r in results:
        if "plan" in r and len(samples) < 4:
            samples.append({"index": r["index"], "seed": r["seed"], "plan": r["plan"],
                            "digest": r["digest"], "outcome":
                            ("violation" if r["violations"] else "ok"), "steps": r["steps"]})
    for p in probes:
        if probes[p] == 0:
            print(f"WARNING probe-at-zero {p}", file=out)
    for name in getattr(mod, "PROBES", []):
        if probes.get(name, 0) == 0:
            print(f"WARNING probe-at-zero {name}", file=out)
    evidence = {
        "property_id": pid,
        "tier": tier,
        "seed": int(master),
        "level": mod.LEVEL,
        "coverage": {
            "evaluations": sum(r.get("evaluations", 1) for r in results),
            "runs": len(results),
            "distinct_nontrivial": len(keys),
            "rule": mod.RULE,
            "samples": samples,
            "exhaustive": bool(getattr(mod, "EXHAUSTIVE", {}).get(tier, False)),
            "seed_rule": "seed_i = sha256('<VERIF_SEED>:<property>:<i>')[:16]; "
                         f"i in [0,{len(results)})",
            "runs_per_hour": int(len(results) / max(wall, 1e-6) * 3600),
            "logical_steps_simulated": steps,
            "simulated_time": "the code has no clock; logical steps (= simulator events) are "
                              "reported instead",
            "faults_fired": faults,
            "counters": stats,
            "probes": probes,
            "determinism": det,
            "violation_groups": [
                {"cls": c, "site": s, "runs": g["count"]} for (c, s), g in sorted(groups.items())],
            "known_findings_seen": n_known,
            "components": REAL_VS_STUB,
            "workers": workers,
        },
        "assumptions": list(getattr(mod, "ASSUMPTIONS", [])),
        "wall_s": round(wall, 2),
        "violations": n_unlisted,
    }
    evdir = os.environ.get("VERIF_EVIDENCE_DIR") or os.path.join(boot.VERIF_ROOT, "evidence")
    os.makedirs(evdir, exist_ok=True)
    with open(os.path.join(evdir, pid + ".json"), "w") as f:
        json.dump(evidence, f, indent=1, sort_keys=False, default=repr)
        f.write("\n")

    print(f"{pid} tier={tier} seed={master} runs={len(results)}/{n} distinct={len(keys)} "
          f"steps={steps} faults={faults} determinism={det['matching']}/{det['rerun']} "
          f"violations={n_unlisted} known={n_known} wall={wall:.1f}s", file=out)
    if n_unlisted:
        code = 1
    elif harness_errors or len(results) < n:
        code = 2
    else:
        code = 0
    for h in harness_errors[:10]:
        print("HARNESS-ERROR: " + h.strip().replace("\n", "\n    "), file=out)
    return code


def report_violation(pid, tier, master, mod, g, harness_errors, full=True):
    """confirm in a fresh interpreter, minimise, write the replay file, verify the replay"""
    r, v = g["first"], g["v"]
    plan = r["plan"]
    ctx = multiprocessing.get_context("fork")
    minimal, tried = plan, 0
    final = None
    try:
        if not full:
            raise _Skip()
        with concurrent.futures.ProcessPoolExecutor(1, mp_context=ctx,
                                                    initializer=_worker_init) as ex:
            minimal, tried = ex.submit(_minimise_worker, pid, plan, v, 30.0).result(timeout=400)
            final = ex.submit(_replay_worker, pid, minimal).result(timeout=300)
    except _Skip:
        pass
    except Exception as e:  # noqa: BLE001
        harness_errors.append("minimisation failed: " + repr(e))
        final = None
    expect = v
    digest = r["digest"]
    if final is not None:
        same = [x for x in final["violations"] if x["cls"] == v["cls"]]
        if same:
            expect = same[0]
            digest = final["digest"]
        else:
            minimal = plan
    rdir = os.environ.get("VERIF_REPLAY_DIR") or os.path.join(boot.VERIF_ROOT, "replays")
    os.makedirs(rdir, exist_ok=True)
    tag = hashlib.sha256((v["cls"] + "|" + v["site"]).encode()).hexdigest()[:6]
    path = os.path.join(rdir, f"{pid}-{r['seed']:016x}-{tag}.json")
    doc = {"property": pid, "seed": r["seed"], "master_seed": int(master), "index": r["index"],
           "tier": tier, "plan": minimal, "original_plan": plan, "shrink_candidates_tried": tried,
           "expect": {"cls": expect["cls"], "site": expect["site"], "digest": digest,
                      "details": expect["details"]}}
    with open(path, "w") as f:
        json.dump(doc, f, indent=1, default=repr)
        f.write("\n")
    # replay in a fresh interpreter must reproduce it
    if not full:
        return path
    try:
        p = subprocess.run([os.path.join(boot.VERIF_ROOT, "check"), pid, "--replay", path],
                           capture_output=True, text=True, timeout=600,
                           env=dict(os.environ, PYTHONHASHSEED="2"))
        if p.returncode != 1 or "VIOLATION property=" not in p.stdout:
            harness_errors.append(f"replay of {path} did not reproduce (exit {p.returncode}): "
                                  + p.stdout[-500:] + p.stderr[-500:])
    except Exception as e:  # noqa: BLE001
        harness_errors.append("replay check failed: " + repr(e))
    return path


def _replay_worker(pid, plan):
    if not _WORKER["ready"]:
        _worker_init()
    return execute_plan(load_prop(pid), plan)


def replay(pid, path, out=sys.stdout):
    with open(path) as f:
        doc = json.load(f)
    _worker_init()
    mod = load_prop(pid)
    res = execute_plan(mod, doc["plan"])
    if res.get("harness_error"):
        print("HARNESS-ERROR: " + res["harness_error"], file=out)
        return 2
    want = doc["expect"]
    hit = [v for v in res["violations"] if v["cls"] == want["cls"] and v["site"] == want["site"]]
    for v in res["violations"]:
        print(f"  violation class={v['cls']} site={v['site']} details="
              f"{json.dumps(v['details'])[:800]}", file=out)
    print(f"replay digest={res['digest']} expected={want.get('digest')}", file=out)
    if hit:
        same_digest = res["digest"] == want.get("digest")
        print(f"reproduced: cls={want['cls']} site={want['site']} digest_match={same_digest}",
              file=out)
        print(f"VIOLATION property={pid} replay={path}", file=out)
        return 1
    print("not reproduced on this tree", file=out)
    return 0


def digest_of(pid, tier, master, indices, out=sys.stdout):
    res = run_indices(pid, tier, master, indices)
    print("DIGESTS " + json.dumps({str(r["index"]): r["digest"] for r in res}), file=out)
    return 0
