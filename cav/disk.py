"""Disk seam: every access of the code under test to a path below the scratch root goes
through here (``builtins.open`` / ``io.open`` / ``os.open`` and the mutating ``os`` calls).

* write-mode opens get a simulator-owned raw file (``Gate``) below the ordinary
  BufferedWriter/TextIOWrapper: it decides how many bytes reach the real tmpfs file, where
  the scheduler may switch, and when a kill / ENOSPC / pause fires
* read-mode opens get a recording proxy (open / seek / read with offsets)
* ``os.replace/rename/unlink/remove/mkdir/rmdir`` are recorded, are scheduling points, and
  are suppressed for killed actors
"""
import builtins
import errno
import io
import os
import re

from . import boot
from .sim import SIM, SimKill

_real_open = io.open
_real_os_open = os.open
_real = {name: getattr(os, name) for name in
         ("replace", "rename", "unlink", "remove", "mkdir", "rmdir", "fsync", "truncate", "link",
          "symlink")}
_FD_PATHS = {}
_RFD_PATHS = {}          # raw descriptors opened read-only below the scratch root
_real_fd = {name: getattr(os, name) for name in ("write", "read", "close", "lseek")}
for _n in ("pread", "pwrite", "writev"):
    if hasattr(os, _n):
        _real_fd[_n] = getattr(os, _n)
_HASH = re.compile(r"^(xdg/xarray-ceos-alos2/)([0-9a-f]{16,})(/|$)")
_installed = [False]


def under_root(path):
    root = boot.SCRATCH["root"]
    return (root is not None and not SIM.quiet
            and (path == root or path.startswith(root + "/")))


def rel(path):
    root = boot.SCRATCH["root"]
    r = path[len(root) + 1:] if root and path.startswith(root + "/") else path
    m = _HASH.match(r)
    if m:
        tail = r[m.end():]
        if tail and not tail.endswith(".index"):
            # temp / lock / marker names may embed a pid, a random suffix or a time stamp: they
            # are known to the log by order of first appearance only (keeps one seed = one log)
            stem = tail
            for suffix in (".tmp", ".lock", ".part", ".bak", ".size", ".json"):
                if tail.endswith(suffix):
                    stem = suffix
                    break
            tail = SIM.alias("name:" + tail, "T") + ("" if stem == tail else stem)
        r = m.group(1) + SIM.alias(m.group(2)) + m.group(3) + tail
    return r


def _note_outside(path, what):
    """a write-type operation of the code under test on a path that is neither below the scratch
    root nor a device: remembered (not an event - the log stays independent of it) for checks
    that bound where the library may write"""
    if SIM.quiet or not SIM.watch_outside or path is None:
        return
    if path.startswith(("/dev/", "/proc/", "/sys/")) and not path.startswith("/dev/shm/"):
        return
    root = boot.SCRATCH["root"]
    if root is not None and (path == root or path.startswith(root + "/")):
        return
    SIM.outside_writes.append((what, path))


def _abspath(file):
    if isinstance(file, int):
        return None
    try:
        return os.path.abspath(os.fspath(file))
    except TypeError:
        return None


class Gate(io.RawIOBase):
    """raw write-side file: bytes reach the real file in chunks, under the fault plan"""

    def __init__(self, path, fd):
        super().__init__()
        self.fd = fd
        self.path = path
        self.rel = rel(path)
        self.n = 0
        self.full = False
        self.actor = SIM.actor
        self.owner = (SIM.actor, SIM.epoch)
        _FD_PATHS.setdefault(fd, path)
        _GATED.add(fd)
        self.plan = self._match_plan()

    def _match_plan(self):
        plan = SIM.write_plan
        if not plan or plan.get("fired") or "at" not in plan:
            return None
        if plan.get("actor") not in (None, SIM.actor):
            return None
        if plan.get("match") and plan["match"] not in self.rel:
            return None
        seen = plan.get("seen", 0)
        plan["seen"] = seen + 1
        if seen != plan.get("nth", 0):
            return None
        return plan

    def writable(self):
        return True

    def fileno(self):
        return self.fd

    def seekable(self):
        return True

    def seek(self, off, whence=0):
        return _real_fd["lseek"](self.fd, off, whence)

    def tell(self):
        return _real_fd["lseek"](self.fd, 0, 1)

    def truncate(self, size=None):
        if self.owner_dead():
            return size if size is not None else self.tell()
        if size is None:
            size = self.tell()
        SIM.event("truncate", self.rel, size)
        if self.owner_dead():
            return size
        os.ftruncate(self.fd, size)
        return size

    def _fire(self, plan):
        plan["fired"] = True
        SIM.fault(plan["kind"])
        kind = plan["kind"]
        SIM.event(kind, self.rel, self.n, yield_=False)
        if kind == "kill":
            SIM.kill_current()
            raise SimKill(self.rel, self.n)
        if kind == "enospc":
            self.full = True
            raise OSError(errno.ENOSPC, "No space left on device (simulated)", self.path)
        if kind == "pause":
            self.plan = None
            s = boot.STATE["sched"]
            if s is not None and s.is_actor_thread():
                s.suspend_self()

    def owner_dead(self):
        return self.owner in SIM.killed

    def write(self, b):
        if self.owner_dead():
            return len(b)
        if self.full or (getattr(SIM, "disk_full", False) and len(b)):
            if not self.full:
                SIM.fault("enospc-persistent")
                SIM.event("enospc", self.rel, self.n, yield_=False)
            raise OSError(errno.ENOSPC, "No space left on device (simulated)", self.path)
        b = bytes(b)
        total = 0
        chunk = max(1, SIM.write_chunk)
        while total < len(b):
            k = min(chunk, len(b) - total)
            plan = self.plan
            if plan is not None and isinstance(plan["at"], int) and self.n + k >= plan["at"]:
                k = max(plan["at"] - self.n, 0)
                if k:
                    _real_fd["write"](self.fd, b[total:total + k])
                    self.n += k
                    total += k
                self._fire(plan)  # raises for kill / enospc; returns after a pause
                continue
            try:
                SIM.crash_point("write", self.rel)
            except OSError:     # simulated disk-full at this crash point: it stays full
                self.full = True
                raise
            _real_fd["write"](self.fd, b[total:total + k])
            self.n += k
            total += k
            SIM.event("write", self.rel, self.n)
            if self.owner_dead():   # killed by another route while parked
                return len(b)
        return len(b)

    def close(self):
        if not self.closed:
            plan = self.plan
            try:
                if plan is not None and plan["at"] == "close" and not self.owner_dead() \
                        and not getattr(self, "_finalizing", False):
                    self._fire(plan)
            finally:
                _GATED.discard(self.fd)
                _FD_PATHS.pop(self.fd, None)
                try:
                    _real_fd["close"](self.fd)
                except OSError:
                    pass
                if not self.owner_dead() and not getattr(self, "_finalizing", False):
                    SIM.event("close-w", self.rel, self.n, yield_=False)
                super().close()

    def __del__(self):
        self._finalizing = True
        try:
            self.close()
        except BaseException:  # noqa: BLE001
            pass


class GateRW(Gate):
    """read-write handle (modes r+ / w+ / a+): reads and seeks pass through, writes and truncation
    are subject to the same fault plan as write-only handles"""

    def readable(self):
        return True

    def readinto(self, b):
        data = _real_fd["read"](self.fd, len(b))
        b[:len(data)] = data
        return len(data)


class RFile:
    """recording proxy around a real binary read-mode file"""

    def __init__(self, f, path):
        object.__setattr__(self, "_f", f)
        object.__setattr__(self, "_p", rel(path))

    def read(self, n=-1):
        off = self._f.tell()
        want = n if (n is not None and n >= 0) else -1
        SIM.event("read", self._p, off, want)
        SIM.read_request("/" + self._p)
        return self._f.read(n)

    def readinto(self, b):
        off = self._f.tell()
        SIM.event("read", self._p, off, len(b))
        SIM.read_request("/" + self._p)
        return self._f.readinto(b)

    def readall(self):
        return self.read(-1)

    def seek(self, off, whence=0):
        pos = self._f.seek(off, whence)
        SIM.event("seek", self._p, pos)
        return pos

    def close(self):
        if not self._f.closed:
            SIM.event("close", self._p)
        return self._f.close()

    def __enter__(self):
        return self

    def __exit__(self, *a):
        self.close()

    def __iter__(self):
        return iter(self._f)

    def __getattr__(self, k):
        return getattr(self._f, k)

    def __setattr__(self, k, v):
        setattr(self._f, k, v)


def _wrap_gate(path, fd, mode, buffering, encoding, errors, newline):
    raw = Gate(path, fd)
    if buffering == 0 and "b" in mode:
        return raw
    buf = io.BufferedWriter(raw)
    if "b" in mode:
        return buf
    return io.TextIOWrapper(buf, encoding=encoding, errors=errors, newline=newline)


def _text_encoding(encoding, stacklevel=2):
    return "locale" if encoding is None else encoding


def sim_open(file, mode="r", buffering=-1, encoding=None, errors=None, newline=None,
             closefd=True, opener=None):
    if isinstance(file, int):
        path = _FD_PATHS.get(file)
        if path is not None and any(c in mode for c in "wax") and "+" not in mode:
            return _wrap_gate(path, file, mode, buffering, encoding, errors, newline)
        return _real_open(file, mode, buffering, encoding, errors, newline, closefd, opener)
    p = _abspath(file)
    if p is None or not under_root(p) or opener is not None:
        if p is not None and any(c in mode for c in "wax+"):
            _note_outside(p, "open:" + mode)
        return _real_open(file, mode, buffering, encoding, errors, newline, closefd, opener)
    if "b" not in mode and encoding in (None, "locale"):
        # the locale encoding of the simulated process
        encoding = getattr(SIM, "locale", None) or "utf-8"
    writing = any(c in mode for c in "wax+")
    if writing:
        if "+" in mode:
            if SIM.is_dead():
                raw = GateRW(p, _real_os_open(os.devnull, os.O_RDWR))
            else:
                SIM.event("open-w", rel(p), mode.replace("b", "").replace("t", ""))
                flags = os.O_RDWR | os.O_CLOEXEC
                if "w" in mode:
                    flags |= os.O_CREAT | os.O_TRUNC
                elif "a" in mode:
                    flags |= os.O_CREAT | os.O_APPEND
                elif "x" in mode:
                    flags |= os.O_CREAT | os.O_EXCL
                rw_fd = _real_os_open(p, flags, 0o666)
                if "a" in mode:
                    _real_fd["lseek"](rw_fd, 0, os.SEEK_END)
                raw = GateRW(p, rw_fd)
            if buffering == 0 and "b" in mode:
                return raw
            buf = io.BufferedRandom(raw)
            if "b" in mode:
                return buf
            return io.TextIOWrapper(buf, encoding=encoding, errors=errors, newline=newline)
        if SIM.is_dead():
            return _wrap_gate(p, _real_os_open(os.devnull, os.O_WRONLY), mode, buffering,
                              encoding, errors, newline)
        SIM.event("open-w", rel(p), mode.replace("b", "").replace("t", ""))
        flags = os.O_WRONLY | os.O_CREAT | os.O_CLOEXEC
        if "w" in mode:
            flags |= os.O_TRUNC
        if "a" in mode:
            flags |= os.O_APPEND
        if "x" in mode:
            flags |= os.O_EXCL
        fd = _real_os_open(p, flags, 0o666)
        if "a" in mode:
            _real_fd["lseek"](fd, 0, os.SEEK_END)
        return _wrap_gate(p, fd, mode, buffering, encoding, errors, newline)
    # read mode
    SIM.event("open", rel(p))
    if p.endswith(".index"):
        try:
            with _real_open(p, "rb") as peek:
                if b"\x00" in peek.read():
                    SIM.probe("hole_state_seen")
        except OSError:
            pass
    f = _real_open(file, mode, buffering, encoding, errors, newline, closefd, opener)
    if "b" in mode:
        return RFile(f, p)
    return f


def sim_os_open(path, flags, mode=0o777, *, dir_fd=None):
    p = _abspath(path) if dir_fd is None else None
    if p is None or not under_root(p):
        if p is not None and flags & (os.O_WRONLY | os.O_RDWR | os.O_CREAT):
            _note_outside(p, "os.open")
        if dir_fd is None:
            return _real_os_open(path, flags, mode)
        return _real_os_open(path, flags, mode, dir_fd=dir_fd)
    if flags & (os.O_WRONLY | os.O_RDWR):
        if SIM.is_dead():
            return _real_os_open(os.devnull, os.O_WRONLY)
        SIM.event("open-w", rel(p), "os")
        fd = _real_os_open(path, flags, mode)
        _FD_PATHS[fd] = p
        return fd
    fd = _real_os_open(path, flags, mode)
    if not flags & os.O_DIRECTORY:
        SIM.event("open", rel(p))
        _RFD_PATHS[fd] = [rel(p), 0]
    return fd


# raw-descriptor I/O (os.write / os.read / os.pread / ...) on descriptors that were opened through
# the seam: same crash points, same "a dead actor's writes do not reach the disk", same request log
def sim_os_write(fd, data):
    if fd in _FD_PATHS and not SIM.quiet:
        if _gated_fd(fd):
            return _real_fd["write"](fd, data)
        if SIM.is_dead():
            return len(data)
        SIM.crash_point("write", rel(_FD_PATHS[fd]))
        n = _real_fd["write"](fd, data)
        SIM.event("write", rel(_FD_PATHS[fd]), n)
        return n
    return _real_fd["write"](fd, data)


_GATED = set()           # descriptors wrapped by a Gate: the Gate does the bookkeeping


def _gated_fd(fd):
    return fd in _GATED


def sim_os_pwrite(fd, data, offset):
    if fd in _FD_PATHS and not SIM.quiet:
        if SIM.is_dead():
            return len(data)
        SIM.crash_point("write", rel(_FD_PATHS[fd]))
        n = _real_fd["pwrite"](fd, data, offset)
        SIM.event("write", rel(_FD_PATHS[fd]), n)
        return n
    return _real_fd["pwrite"](fd, data, offset)


def sim_os_read(fd, n):
    ent = _RFD_PATHS.get(fd)
    if ent is not None and not SIM.quiet:
        SIM.event("read", ent[0], ent[1], n)
        SIM.read_request("/" + ent[0])
        out = _real_fd["read"](fd, n)
        ent[1] += len(out)
        return out
    return _real_fd["read"](fd, n)


def sim_os_pread(fd, n, offset):
    ent = _RFD_PATHS.get(fd)
    if ent is not None and not SIM.quiet:
        SIM.event("read", ent[0], offset, n)
        SIM.read_request("/" + ent[0])
    return _real_fd["pread"](fd, n, offset)


def sim_os_lseek(fd, pos, how):
    out = _real_fd["lseek"](fd, pos, how)
    ent = _RFD_PATHS.get(fd)
    if ent is not None and not SIM.quiet:
        ent[1] = out
        SIM.event("seek", ent[0], out)
    return out


def sim_os_close(fd):
    ent = _RFD_PATHS.pop(fd, None)
    if ent is not None and not SIM.quiet:
        SIM.event("close", ent[0], yield_=False)
    if fd in _FD_PATHS and fd not in _GATED:
        p = _FD_PATHS.pop(fd)
        if not SIM.quiet and not SIM.is_dead():
            SIM.event("close-w", rel(p), "os", yield_=False)
    return _real_fd["close"](fd)


def _mutator(name, npaths):
    real = _real[name]

    def wrapper(*args, **kw):
        paths = [_abspath(a) for a in args[:npaths]]
        if kw.get("dir_fd") is not None or kw.get("src_dir_fd") is not None \
                or not any(p and under_root(p) for p in paths):
            for p in paths:
                _note_outside(p, name)
            return real(*args, **kw)
        if SIM.is_dead():
            return None
        plan = SIM.write_plan
        if plan and not plan.get("fired") and plan.get("before_op") == name \
                and plan.get("actor") in (None, SIM.actor):
            plan["fired"] = True
            SIM.fault("kill")
            SIM.event("kill-before", name, *[rel(p) for p in paths if p], yield_=False)
            SIM.kill_current()
            raise SimKill(name)
        SIM.event(name, *[rel(p) for p in paths if p])
        if SIM.is_dead():
            return None
        return real(*args, **kw)

    wrapper.__name__ = name
    return wrapper


_real_stat = {"stat": os.stat, "lstat": os.lstat}


def _stat_wrapper(name):
    real = _real_stat[name]

    def wrapper(path, *a, **kw):
        if not isinstance(path, int) and kw.get("dir_fd") is None and not SIM.quiet:
            p = _abspath(path)
            if p is not None and under_root(p):
                # an existence / metadata probe: recorded, and a point where the scheduler may
                # switch (check-then-act windows such as is_file() ... read_text())
                SIM.event("stat", rel(p))
        return real(path, *a, **kw)

    wrapper.__name__ = name
    return wrapper


def sim_fsync(fd):
    if fd in _FD_PATHS:
        SIM.event("fsync", rel(_FD_PATHS[fd]))
    return _real["fsync"](fd)


def install():
    if _installed[0]:
        return
    _installed[0] = True
    io.open = sim_open
    builtins.open = sim_open
    # the harness interpreter runs in UTF-8 mode, where pathlib's read_text / write_text would
    # name "utf-8" themselves; the simulated process is an ordinary one: "no encoding given"
    # stays "locale" down to the open seam, which then applies the simulated locale
    io.text_encoding = _text_encoding
    os.open = sim_os_open
    for name, n in (("replace", 2), ("rename", 2), ("unlink", 1), ("remove", 1), ("mkdir", 1),
                    ("rmdir", 1), ("truncate", 1), ("link", 2), ("symlink", 2)):
        setattr(os, name, _mutator(name, n))
    os.fsync = sim_fsync
    os.stat = _stat_wrapper("stat")
    os.lstat = _stat_wrapper("lstat")
    os.write = sim_os_write
    os.read = sim_os_read
    os.close = sim_os_close
    os.lseek = sim_os_lseek
    if "pwrite" in _real_fd:
        os.pwrite = sim_os_pwrite
    if "pread" in _real_fd:
        os.pread = sim_os_pread
    _install_memory_events()


def _install_memory_events():
    """fsspec's memory:// files are BytesIO objects: their reads and seeks become events as well
    (event budget = bounded liveness on every back-end; the request stream of memory:// is not
    used by any I/O-pattern oracle)"""
    try:
        from fsspec.implementations.memory import MemoryFile
    except Exception:  # noqa: BLE001
        return
    base_read, base_seek, base_readinto = MemoryFile.read, MemoryFile.seek, MemoryFile.readinto

    def read(self, size=-1):
        if not SIM.quiet:
            SIM.event("read", "mem:" + str(getattr(self, "path", "?")), self.tell(),
                      size if size is not None else -1)
        return base_read(self, size)

    def readinto(self, b):
        if not SIM.quiet:
            SIM.event("read", "mem:" + str(getattr(self, "path", "?")), self.tell(), len(b))
        return base_readinto(self, b)

    def seek(self, pos, whence=0):
        out = base_seek(self, pos, whence)
        if not SIM.quiet:
            SIM.event("seek", "mem:" + str(getattr(self, "path", "?")), out)
        return out

    MemoryFile.read, MemoryFile.seek, MemoryFile.readinto = read, seek, readinto


def real_open(*a, **k):
    """for the harness itself: bypasses the seam"""
    return _real_open(*a, **k)


def real_os(name):
    return _real[name]
