"""Simulation context shared by all seams: the event log, the current actor, fault plan.

Everything that the code under test does to the outside world goes through a seam that
calls ``SIM.event(...)``: the event gets a global sequence number, the name of the actor
that caused it, and - when a scheduler is active - becomes a point where the scheduler may
hand the baton to another actor.  Logging never draws random numbers.
"""
import hashlib

from . import boot


class SimKill(BaseException):
    """the actor was killed (SIGKILL model): nothing it does afterwards reaches the disk"""


class SimAbort(BaseException):
    """the run is being torn down (deadlock / step budget); unwinds parked actors"""


MUTATIONS = ("open-w", "write", "close-w", "mkdir", "replace", "rename", "unlink", "remove",
             "rmdir", "truncate", "link", "symlink", "fsync")


class Sim:
    def __init__(self):
        self.reset()

    def reset(self):
        self.log = []            # (seq, actor, kind, file, *args)
        self.actor = "main"      # name of the running actor (set by the scheduler)
        self.killed = set()      # (actor, epoch) of killed actors; never shrinks within a run
        self.epoch = 0           # incremented by every simulated process restart
        self.faults = {}         # fired fault counters  kind -> n
        self.write_plan = None   # dict or None: see disk.Gate
        self.write_chunk = 1 << 30
        self.probes = {}
        self.aliases = {}        # hash-dir -> stable alias
        self.phase = None
        self.max_events = 2000000
        self.budget_hit = False
        self.quiet = 0           # >0: seams pass through silently (harness' own file work)
        self.clock = 0.0         # virtual seconds: advanced only by timed waits / sleeps
        self.max_clock = 3600.0
        self.read_fault = None   # {"file": basename, "nth": n}: the n-th read request on it fails
        self.watch_outside = False   # remember write-type operations outside the scratch root
        self.outside_writes = []

    # ------------------------------------------------------------------ events
    def event(self, kind, file, *args, yield_=True):
        s = boot.STATE["sched"]
        actor = self.actor
        if kind in MUTATIONS and kind != "write":
            self.crash_point(kind, file)
        self.log.append((len(self.log), actor, kind, file) + args)
        if len(self.log) > self.max_events:
            self.budget_hit = True
            if s is not None and s.is_actor_thread() and not s.outer:
                s.force_abort()
            raise SimAbort("event budget exceeded")
        if yield_ and s is not None and s.is_actor_thread() \
                and (s.only_kinds is None or kind in s.only_kinds):
            s.yield_point()

    def crash_point(self, kind, file):
        """crash point = just before a disk-mutating operation of the writer takes effect (mkdir,
        open for writing, each write chunk, close, rename, unlink, ...): the planned kill / ENOSPC
        fires at the n-th of them, whatever protocol the writer follows"""
        plan = self.write_plan
        actor = self.actor
        if plan is None or plan.get("at_event") is None or plan.get("fired") \
                or plan.get("actor") not in (None, actor) or self.quiet \
                or (actor, self.epoch) in self.killed:
            return
        seen = plan.get("seen_events", 0)
        plan["seen_events"] = seen + 1
        if seen != plan["at_event"]:
            return
        plan["fired"] = True
        plan["fired_at"] = [kind, str(file)]
        if plan["kind"] == "kill":
            self.fault("kill")
            self.log.append((len(self.log), actor, "kill-before", kind, file))
            self.kill_current()
            raise SimKill(kind, file)
        if kind in ("open-w", "mkdir", "write"):
            import errno

            self.fault("enospc")
            self.log.append((len(self.log), actor, "enospc-at", kind, file))
            raise OSError(errno.ENOSPC, "No space left on device (simulated)", str(file))

    def read_request(self, path):
        """called by the read-side seams before a read / ranged fetch is served: raises the
        planned I/O error when this is the request the fault plan names"""
        rf = self.read_fault
        if rf is None or rf.get("fired") or not str(path).endswith("/" + rf["file"]):
            return
        seen = rf.get("seen", 0)
        rf["seen"] = seen + 1
        if seen == rf["nth"]:
            import errno

            rf["fired"] = True
            kind = getattr(self, "io_error", "eio") or "eio"
            self.fault(kind)
            self.log.append((len(self.log), self.actor, "eio", str(path), seen))
            cls, code, text = {
                "eio": (OSError, errno.EIO, "Input/output error"),
                "econnreset": (ConnectionResetError, errno.ECONNRESET, "Connection reset by peer"),
                "econnaborted": (ConnectionAbortedError, errno.ECONNABORTED,
                                 "Software caused connection abort"),
                "etimedout": (TimeoutError, errno.ETIMEDOUT, "Connection timed out"),
                "eintr": (InterruptedError, errno.EINTR, "Interrupted system call"),
            }[kind]
            raise cls(code, text + " (simulated)", str(path))

    def kill_current(self):
        self.killed.add((self.actor, self.epoch))

    def is_dead(self):
        return (self.actor, self.epoch) in self.killed

    def fault(self, kind):
        self.faults[kind] = self.faults.get(kind, 0) + 1

    def probe(self, name, n=1):
        self.probes[name] = self.probes.get(name, 0) + n

    def mark(self):
        return len(self.log)

    def since(self, mark):
        return self.log[mark:]

    def digest(self):
        h = hashlib.sha256()
        for ev in self.log:
            h.update(repr(ev[1:]).encode())
            h.update(b"\n")
        return h.hexdigest()[:16]

    def alias(self, hashdir, prefix="H"):
        a = self.aliases.get(hashdir)
        if a is None:
            n = sum(1 for v in self.aliases.values() if v.startswith(prefix))
            a = self.aliases[hashdir] = "%s%d" % (prefix, n)
        return a


SIM = Sim()


class quiet:
    """context manager: the harness' own file operations are not part of the simulation"""

    def __enter__(self):
        SIM.quiet += 1

    def __exit__(self, *a):
        SIM.quiet -= 1
