"""A *world*: one synthesised product on one storage back-end plus the cache storage.

All helper methods that the harness uses to inspect or prepare storage run in ``quiet``
mode (they are not part of the simulated history) unless stated otherwise.
"""
import _thread
import hashlib
import importlib
import json
import os
import shutil
import sys
import time
import tomllib

from . import boot, disk, simfs, synth, watchdog
from .sim import SIM, quiet

BACKENDS = ("simfs", "simfs_opt", "local", "file", "memory")
RECORDED = ("simfs", "simfs_opt", "local", "file")
LOCAL = ("local", "file")
CACHE_PROJECT = "xarray-ceos-alos2"
_ORIG_ARGV = list(sys.argv)


class _StderrRouter:
    """sys.stderr replacement: what a thread that runs the tool in-process writes goes to that
    run's buffer, everything else to the real stream (several tool runs may be interleaved)"""

    def __init__(self, real):
        self.real = real
        self.buffers = {}

    def write(self, text):
        buf = self.buffers.get(_thread.get_ident())
        return (buf or self.real).write(text)

    def flush(self):
        try:
            self.real.flush()
        except Exception:  # noqa: BLE001
            pass

    def fileno(self):
        return self.real.fileno()

    def __getattr__(self, name):
        return getattr(self.real, name)


def _stderr_router():
    if not isinstance(sys.stderr, _StderrRouter):
        sys.stderr = _StderrRouter(sys.stderr)
    return sys.stderr


def code():
    """the package under test, (re-)imported on demand"""
    mod = sys.modules.get("ceos_alos2")
    if mod is None:
        mod = boot.import_code_under_test()
    return mod


def restart():
    """simulated process restart: only files survive"""
    boot.purge_code_under_test()
    simfs.register()
    SIM.epoch += 1
    return boot.import_code_under_test()


def gen_world_plan(rng, backends=BACKENDS, **synth_kw):
    plan = synth.gen_plan(rng, **synth_kw)
    plan["backend"] = rng.choice(list(backends))
    plan["dirs"] = rng.choice([[], ["a"], ["data", "ALOS2"], ["x", "y", "z"], ["a"], ["d.1", "e"],
                               ["donn\u00e9es"], ["\u30c7\u30fc\u30bf", "my data"],
                               ["scene#2"], ["a%2Db", "q?x=1"]])
    plan["trailing_slash"] = rng.random() < 0.25
    # interpreter configuration for the code under test: python -O / -OO in one run out of five
    plan["optimize"] = rng.choice([0] * 8 + [1, 2])
    # what a failing read request raises (all are OSErrors; the last four are "transient" ones
    # that retry helpers single out)
    plan["io_error"] = rng.choice(["eio"] * 4 + ["econnreset", "etimedout", "eintr",
                                                 "econnaborted"])
    # locale encoding of the process (text files opened without an explicit encoding)
    plan["locale"] = rng.choice(["utf-8"] * 6 + ["ascii", "latin-1", "cp1252", "utf-8"])
    # time zone of the process: UTC, 8 h west, 9 h east, half-hour offset
    plan["tz"] = rng.choice(["UTC0"] * 5 + ["PST8", "PST8PDT", "JST-9", "IST-5:30", "XXX11"])
    # the caller keeps one options dict per option set and passes the same object again
    plan["share_option_dicts"] = rng.random() < 0.3
    return plan


class World:
    def __init__(self, plan, fresh=True, slot=0):
        """``fresh=False`` adds a second product to the running world (slot 1) without
        resetting storage or the event log"""
        self.plan = plan
        self.root = boot.scratch_root()
        self.slot = slot
        self._shared_opts = {}
        try:
            os.chdir(self.root)      # relative product paths are spelled from here
        except OSError:
            pass
        disk.install()
        simfs.register()
        if fresh:
            self.reset_storage()
            # the environment of the simulated process(es): which error a failing read request
            # raises, and the locale encoding that text files opened without an explicit
            # encoding get
            SIM.io_error = plan.get("io_error", "eio")
            SIM.locale = plan.get("locale", "utf-8")
            SIM.disk_full = False
            # time zone of the process (POSIX TZ strings: no zone database needed)
            os.environ["TZ"] = plan.get("tz", "UTC0")
            time.tzset()
        self.product = synth.build(plan)
        self._place(plan["backend"], list(plan.get("dirs", [])), self.product.files)

    def _place(self, backend, dirs, files):
        self.backend = backend
        self.dirs = dirs
        sub = "/".join(self.dirs + ["prod"])
        self.sub = sub
        tag = "" if self.slot == 0 else str(self.slot)
        if self.backend in ("simfs", "simfs_opt"):
            self.simfs_world = "/w0" + tag
            self.base = self.simfs_world + "/" + sub
            for name, data in files.items():
                simfs.FILES[self.base + "/" + name] = data
        elif self.backend in LOCAL:
            self.base = self.root + "/w/" + (("s" + tag + "/") if tag else "") + sub
            with quiet():
                os.makedirs(self.base, exist_ok=True)
                for name, data in files.items():
                    with disk.real_open(self.base + "/" + name, "wb") as f:
                        f.write(data)
        elif self.backend == "memory":
            import fsspec

            self.base = "/cav" + tag + "/" + sub
            fs = fsspec.filesystem("memory")
            for name, data in files.items():
                fs.pipe_file(self.base + "/" + name, data)
        else:
            raise ValueError(self.backend)

    def relocate(self, backend, dirs, scramble_old=True):
        """copy everything in the product directory (index files included) to another location /
        store; the old location keeps the same file names but gets *different* image content, so
        that a read going to the old place cannot go unnoticed.  The world then lives at the new
        location."""
        files = {name: self.read_file(name) for name in self.listing()}
        old = (self.backend, self.dirs, self.base, self.slot)
        if scramble_old:
            other = dict(self.plan, data_seed=self.plan["data_seed"] + 7919)
            decoy = synth.build(other)
            for name in self.product.images:
                self.write_file(name, decoy.files[name])
        self.slot = 2
        self._place(backend, dirs, files)
        return old

    def rewrite_in_place(self, plan):
        """replace the product by another one (same location)"""
        for name in list(self.listing()):
            self.remove_file(name)
        self.plan = plan
        self.product = synth.build(plan)
        for name, data in self.product.files.items():
            self.write_file(name, data)

    # ------------------------------------------------------------------ storage reset
    def reset_storage(self):
        SIM.reset()
        simfs.clear()
        with quiet():
            for sub in ("w", "xdg"):
                shutil.rmtree(os.path.join(self.root, sub), ignore_errors=True)
            os.makedirs(self.root + "/xdg")
        try:
            from fsspec.implementations.memory import MemoryFileSystem

            MemoryFileSystem.store.clear()
            MemoryFileSystem.pseudo_dirs[:] = [""]
        except Exception:
            pass

    def destroy(self):
        simfs.clear()
        with quiet():
            for sub in ("w", "xdg"):
                shutil.rmtree(os.path.join(self.root, sub), ignore_errors=True)

    # ------------------------------------------------------------------ addressing
    def url(self, spelling=None):
        b = self.backend
        if spelling is None:
            spelling = "slash" if self.plan.get("trailing_slash") else "plain"
        tail = "/" if spelling == "slash" else ""
        if b == "simfs":
            return "simfs://" + self.base.lstrip("/") + tail
        if b == "simfs_opt":
            return "simfs://" + self.sub + tail
        if b in ("local", "file") and spelling == "relative":
            return os.path.relpath(self.base, self.root)
        if b == "local":
            if spelling == "file":
                return "file://" + self.base
            return self.base + tail
        if b == "file":
            if spelling == "bare":
                return self.base
            return "file://" + self.base + tail
        if b == "memory":
            return "memory://" + self.base.lstrip("/") + tail
        raise ValueError(b)

    def storage_options(self):
        return {"prefix": self.simfs_world} if self.backend == "simfs_opt" else None

    def options(self, **kw):
        """backend_options for open_alos2; keys with value None are omitted"""
        opts = {k: v for k, v in kw.items() if v is not None}
        so = self.storage_options()
        if so is not None:
            opts["storage_options"] = dict(so)
        return opts

    def open(self, spelling=None, **kw):
        opts = self.options(**kw)
        if self.plan.get("share_option_dicts"):
            # a caller that keeps ONE dict per option set and passes that same object to every
            # open (what the library does to the dict stays done)
            key = json.dumps(opts, sort_keys=True, default=str)
            opts = self._shared_opts.setdefault(key, opts)
        with watchdog.deadline():
            return code().open_alos2(self.url(spelling), backend_options=opts)

    def cli(self, image, rpc=None, cache_root=None):
        """run the console entry point ``ceos-alos2-create-cache`` in-process"""
        main = load_cli()
        argv = ["ceos-alos2-create-cache"]
        if rpc is not None:
            argv += ["--rpc", str(rpc)]
        argv.append(self.base + "/" + image)
        if cache_root is not None:
            argv.append(cache_root)
        import io as _io

        self.cli_stderr = _io.StringIO()
        router = _stderr_router()
        ident = _thread.get_ident()
        router.buffers[ident] = self.cli_stderr
        sys.argv = argv      # read by argparse before the tool's first file operation
        try:
            with watchdog.deadline():
                main()
            return 0
        except SystemExit as e:
            return e.code if isinstance(e.code, int) else (0 if e.code is None else 1)
        finally:
            router.buffers.pop(ident, None)
            sys.argv = _ORIG_ARGV

    # ------------------------------------------------------------------ product files
    def file_path(self, name):
        return self.base + "/" + name

    def read_file(self, name):
        if self.backend in ("simfs", "simfs_opt"):
            return simfs.FILES.get(self.file_path(name))
        if self.backend in LOCAL:
            with quiet():
                try:
                    with disk.real_open(self.file_path(name), "rb") as f:
                        return f.read()
                except FileNotFoundError:
                    return None
        import fsspec

        fs = fsspec.filesystem("memory")
        try:
            return fs.cat_file(self.file_path(name))
        except FileNotFoundError:
            return None

    def write_file(self, name, data):
        if self.backend in ("simfs", "simfs_opt"):
            simfs.FILES[self.file_path(name)] = data
        elif self.backend in LOCAL:
            with quiet():
                with disk.real_open(self.file_path(name), "wb") as f:
                    f.write(data)
        else:
            import fsspec

            fsspec.filesystem("memory").pipe_file(self.file_path(name), data)

    def remove_file(self, name):
        if self.backend in ("simfs", "simfs_opt"):
            simfs.FILES.pop(self.file_path(name), None)
        elif self.backend in LOCAL:
            with quiet():
                try:
                    disk.real_os("unlink")(self.file_path(name))
                except FileNotFoundError:
                    pass
        else:
            import fsspec

            try:
                fsspec.filesystem("memory").rm_file(self.file_path(name))
            except FileNotFoundError:
                pass

    def touch_images(self, seconds=5):
        """same bytes, newer modification time (local back-ends)"""
        with quiet():
            import time as _t

            now = _t.time() + seconds
            for name in self.product.images:
                try:
                    os.utime(self.file_path(name), (now, now))
                except OSError:
                    pass

    def listing_meta(self):
        """{name: (size, mtime_ns, inode)} of the product directory (local back-ends): a rewrite
        with identical content is a modification too"""
        out = {}
        if self.backend in LOCAL:
            with quiet():
                for dirpath, _, files in os.walk(self.base):
                    for fn in files:
                        full = os.path.join(dirpath, fn)
                        try:
                            st = os.lstat(full)
                            out[os.path.relpath(full, self.base)] = (st.st_size, st.st_mtime_ns,
                                                                     st.st_ino)
                        except OSError:
                            out[os.path.relpath(full, self.base)] = None
        return out

    def listing(self):
        """{name: sha256} of everything in the product directory"""
        out = {}
        if self.backend in ("simfs", "simfs_opt"):
            pre = self.base + "/"
            for k, v in simfs.FILES.items():
                if k.startswith(pre):
                    out[k[len(pre):]] = hashlib.sha256(v).hexdigest()[:16]
        elif self.backend in LOCAL:
            with quiet():
                for dirpath, _, files in os.walk(self.base):
                    for fn in files:
                        full = os.path.join(dirpath, fn)
                        with disk.real_open(full, "rb") as f:
                            out[os.path.relpath(full, self.base)] = hashlib.sha256(
                                f.read()).hexdigest()[:16]
        else:
            import fsspec

            fs = fsspec.filesystem("memory")
            for k in fs.find(self.base):
                out[k[len(self.base) + 1:]] = hashlib.sha256(fs.cat_file(k)).hexdigest()[:16]
        return dict(sorted(out.items()))

    # ------------------------------------------------------------------ cache storage
    def cache_root(self):
        return self.root + "/xdg/" + CACHE_PROJECT

    def user_cache(self):
        """{(hashdir, fname): bytes} of all regular files below the user cache dir"""
        out = {}
        with quiet():
            for dirpath, _, files in os.walk(self.root + "/xdg"):
                for fn in sorted(files):
                    full = os.path.join(dirpath, fn)
                    key = (os.path.relpath(dirpath, self.root + "/xdg"), fn)
                    try:
                        if os.path.islink(full):
                            out[key] = b"<symlink to " + os.readlink(full).encode() + b">"
                        else:
                            with disk.real_open(full, "rb") as f:
                                out[key] = f.read()
                    except OSError as e:
                        out[key] = b"<unreadable: " + type(e).__name__.encode() + b">"
        return out

    def user_index_files(self):
        return {k: v for k, v in self.user_cache().items() if k[1].endswith(".index")}

    def clear_user_cache(self, image=None, depth="files"):
        """the user deletes cache files: one image's index, all index files (``files``), the
        product's directory (``hashdir``), the library's cache directory (``appdir``) or the
        whole cache home (``xdg``)"""
        n = 0
        with quiet():
            for (d, fn), _ in self.user_cache().items():
                if image is None or fn == image + ".index":
                    disk.real_os("unlink")(os.path.join(self.root, "xdg", d, fn))
                    n += 1
            if image is None and depth != "files":
                top = {"hashdir": None, "appdir": self.cache_root(),
                       "xdg": self.root + "/xdg"}[depth]
                if top is None:
                    base = self.cache_root()
                    tops = [os.path.join(base, x) for x in (os.listdir(base) if os.path.isdir(base)
                                                            else [])]
                else:
                    tops = [top]
                for t in tops:
                    shutil.rmtree(t, ignore_errors=True)
        return n

    def plant_user(self, hashdir, image, data):
        with quiet():
            d = os.path.join(self.cache_root(), hashdir)
            os.makedirs(d, exist_ok=True)
            with disk.real_open(os.path.join(d, image + ".index"), "wb") as f:
                f.write(data)

    def adjacent(self):
        return {k: self.read_file(k) for k in self.listing() if k.endswith(".index")
                and k.startswith("IMG-")}

    def plant_adjacent(self, image, data):
        self.write_file(image + ".index", data)

    def clear_adjacent(self, image=None):
        n = 0
        for k in list(self.adjacent()):
            if image is None or k == image + ".index":
                self.remove_file(k)
                n += 1
        return n


def load_cli():
    try:
        with disk.real_open(os.path.join(boot.REPO, "pyproject.toml"), "rb") as f:
            spec = tomllib.load(f)["project"]["scripts"]["ceos-alos2-create-cache"]
    except Exception:
        spec = "ceos_alos2.sar_image.cli:main"
    modname, func = spec.split(":")
    code()
    mod = importlib.import_module(modname)
    return getattr(mod, func)


def shrink_world(wp):
    """candidate smaller world plans (simplest first)"""
    import copy

    def variant(**kw):
        c = copy.deepcopy(wp)
        c.update(kw)
        return c

    if len(wp["images"]) > 1:
        for k in range(len(wp["images"])):
            yield variant(images=[im for j, im in enumerate(wp["images"]) if j != k])
    for k, im in enumerate(wp["images"]):
        for field, small in (("lines", (1, 2, im["lines"] // 2)), ("pixels", (1, 2, im["pixels"] // 2)),
                             ("n_special", (0,))):
            for val in small:
                if 0 < val < im[field] or (field == "n_special" and im[field] > 0 and val == 0):
                    c = copy.deepcopy(wp)
                    c["images"][k][field] = val
                    yield c
        if im.get("scan"):
            c = copy.deepcopy(wp)
            c["images"][k]["scan"] = None
            if len({(x["pol"], x.get("scan")) for x in c["images"]}) == len(c["images"]):
                yield c
    if wp.get("dirs"):
        yield variant(dirs=[])
    if wp.get("trailing_slash"):
        yield variant(trailing_slash=False)
    if wp.get("extra_files"):
        yield variant(extra_files=[])
    if wp.get("mode") != "normal":
        yield variant(mode="normal")
    if not wp.get("map_proj", True):
        yield variant(map_proj=True)
    if wp.get("n_att") != 3:
        yield variant(n_att=3)
    if wp.get("n_ch") != 2:
        yield variant(n_ch=2)
    if wp.get("backend") != "simfs":
        yield variant(backend="simfs")
