"""./check selftest - gates the checks themselves (run on the unchanged tree):

1. determinism: for every property, run indices 0..K-1 are executed (a) sharded over 16 forked
   workers, (b) in a single worker, (c) in a fresh interpreter under another PYTHONHASHSEED;
   all three event-log digests must agree for every index
2. reach: the "rare condition" probes must be non-zero over a quick batch
3. model adequacy of the simulated kill: real child processes run the same create_cache=True
   open and SIGKILL themselves inside the write at byte k; the bytes found on disk must equal
   what the simulated kill leaves
"""
import concurrent.futures
import json
import multiprocessing
import os
import random
import shutil
import signal
import subprocess
import sys
import time

from . import boot, runner

K = 56


def _digests_pool(pid, tier, master, idx, workers):
    ctx = multiprocessing.get_context("fork")
    out = {}
    chunk = max(1, len(idx) // (workers * 2))
    batches = [idx[i:i + chunk] for i in range(0, len(idx), chunk)]
    with concurrent.futures.ProcessPoolExecutor(workers, mp_context=ctx,
                                                initializer=runner._worker_init) as ex:
        for res in ex.map(runner.run_indices, [pid] * len(batches), [tier] * len(batches),
                          [master] * len(batches), batches):
            for r in res:
                out[r["index"]] = (r["digest"], len(r["violations"]), bool(r.get("harness_error")))
    return out


def determinism(master, props):
    bad = 0
    total = 0
    for pid in props:
        idx = list(range(K))
        t0 = time.time()
        a = _digests_pool(pid, "quick", master, idx, 16)
        b = _digests_pool(pid, "quick", master, idx, 1)
        c = runner.fresh_interpreter_digests(pid, "quick", master, idx, hashseed="12345")
        n_bad = 0
        for i in idx:
            total += 1
            if not (a[i][0] == b[i][0] == c.get(str(i))):
                n_bad += 1
                print(f"  NONDETERMINISTIC {pid} run {i}: 16w={a[i][0]} 1w={b[i][0]} "
                      f"fresh={c.get(str(i))}")
            if a[i][2]:
                n_bad += 1
                print(f"  HARNESS ERROR in {pid} run {i}")
        bad += n_bad
        print(f"determinism {pid}: {len(idx)} seeds x (16 workers, 1 worker, fresh interpreter "
              f"PYTHONHASHSEED=12345): {len(idx) - n_bad} agree  [{time.time() - t0:.1f}s]",
              flush=True)
    return bad, total


# ---------------------------------------------------------------------------- real SIGKILL
def sigkill_child(spec_json):
    """runs in a child interpreter: open with create_cache=True and die by SIGKILL at byte k"""
    spec = json.loads(spec_json)
    runner._worker_init()
    from . import disk, world
    from .sim import SIM

    w = world.World(spec["world"])
    print("CHILD-ROOT " + w.root, flush=True)
    if spec["k"] is not None:
        SIM.write_plan = {"kind": "sigkill", "actor": "main", "match": "xdg/", "nth": spec["nth"],
                          "at": spec["k"]}
    orig = disk.Gate._fire

    def fire(self, plan):
        if plan["kind"] == "sigkill":
            os.kill(os.getpid(), signal.SIGKILL)
        return orig(self, plan)

    disk.Gate._fire = fire
    w.open(create_cache=True, use_cache=False)
    print("CHILD-COMPLETED", flush=True)
    # keep the scratch dir for the parent
    os._exit(0)


def _index_files(root):
    out = {}
    base = os.path.join(root, "xdg")
    for dp, _, files in os.walk(base):
        for fn in sorted(files):
            with open(os.path.join(dp, fn), "rb") as f:
                out[fn] = f.read()
    return out


def _run_child(spec):
    p = subprocess.run([os.path.join(boot.VERIF_ROOT, "check"), "selftest", "--sigkill-child",
                        json.dumps(spec)], capture_output=True, text=True, timeout=300)
    root = None
    for ln in p.stdout.splitlines():
        if ln.startswith("CHILD-ROOT "):
            root = ln.split(" ", 1)[1]
    return p.returncode, root, "CHILD-COMPLETED" in p.stdout, p.stderr[-400:]


def kill_adequacy(master, n=10):
    runner._worker_init()
    from . import world
    from .sim import SIM, SimKill

    rng = random.Random(f"sigkill-{master}")
    bad = 0
    done = 0
    for trial in range(n):
        wp = world.gen_world_plan(rng, backends=("local",), max_images=2, max_lines=6,
                                  max_pixels=4)
        # complete documents from an undisturbed child (same code path, real process)
        rc, root, completed, err = _run_child({"world": wp, "k": None, "nth": 0})
        if not completed or root is None:
            print(f"  sigkill trial {trial}: reference child failed rc={rc} {err}")
            bad += 1
            continue
        docs = _index_files(root)
        shutil.rmtree(root, ignore_errors=True)
        names = sorted(docs)
        nth = rng.randrange(len(names))
        # creation order = order of images in the product
        order = [i + ".index" for i in world.synth.build(wp).images]
        target = order[nth]
        k = rng.choice([0, 1, len(docs[target]) - 1, rng.randrange(len(docs[target]))])
        rc, root, completed, err = _run_child({"world": wp, "k": k, "nth": nth})
        if root is None or rc != -signal.SIGKILL:
            print(f"  sigkill trial {trial}: child did not die of SIGKILL (rc={rc}) {err}")
            bad += 1
            if root:
                shutil.rmtree(root, ignore_errors=True)
            continue
        real = _index_files(root)
        shutil.rmtree(root, ignore_errors=True)
        # simulated kill in this process
        w = world.World(wp)
        SIM.write_plan = {"kind": "kill", "actor": "W", "match": "xdg/", "nth": nth, "at": k}
        SIM.actor = "W"
        try:
            w.open(create_cache=True, use_cache=False)
            killed = False
        except SimKill:
            killed = True
        finally:
            SIM.actor = "main"
            SIM.write_plan = None
        sim = {fn: data for (d, fn), data in w.user_cache().items()}
        my_root = w.root
        w.destroy()

        def norm(files, r):
            return {fn: data.replace(r.encode(), b"<ROOT>") for fn, data in files.items()}

        ok = killed and norm(real, root) == norm(sim, my_root) and len(real.get(target, b"")) == k
        done += 1
        if not ok:
            bad += 1
            print(f"  sigkill trial {trial}: MISMATCH k={k} target={target} real="
                  f"{ {f: len(d) for f, d in real.items()} } sim={ {f: len(d) for f, d in sim.items()} }")
    print(f"kill adequacy: {done} real SIGKILLs compared with the simulated kill, {bad} mismatches",
          flush=True)
    return bad


def reach(master):
    """quick batches of the scheduling / fault checks must hit their rare-condition probes"""
    bad = 0
    for pid, probes in (("C19", ["lock_contention", "overlapping_loads"]),
                        ("C09", ["torn_index_seen_by_reader"]),
                        ("C07", ["cached_open_without_image_reads", "adjacent_cache_used"])):
        env = dict(os.environ, VERIF_EVIDENCE_DIR="/dev/shm/cav-selftest-evidence",
                   VERIF_REPLAY_DIR="/dev/shm/cav-selftest-replays")
        p = subprocess.run([os.path.join(boot.VERIF_ROOT, "check"), pid, "--tier", "quick",
                            "--seed", str(master)], env=env, capture_output=True, text=True,
                           timeout=3600)
        ev = json.load(open("/dev/shm/cav-selftest-evidence/%s.json" % pid))
        got = ev["coverage"]["probes"]
        for name in probes:
            if got.get(name, 0) == 0:
                bad += 1
                print(f"  PROBE AT ZERO {pid}.{name}")
        print(f"reach {pid}: exit={p.returncode} probes={ {k: got.get(k, 0) for k in probes} }",
              flush=True)
        if p.returncode != 0:
            bad += 1
    shutil.rmtree("/dev/shm/cav-selftest-evidence", ignore_errors=True)
    shutil.rmtree("/dev/shm/cav-selftest-replays", ignore_errors=True)
    return bad


def run(master, args):
    if getattr(args, "sigkill_child", None):
        sigkill_child(args.sigkill_child)
        return 0
    props = runner.PROPS if not args.only else [p for p in runner.PROPS if p in args.only.upper()]
    t0 = time.time()
    bad_det, total = determinism(master, props)
    bad_kill = kill_adequacy(master) if not args.only else 0
    bad_reach = reach(master) if not args.only else 0
    print(f"selftest: determinism {total - bad_det}/{total}, kill-adequacy mismatches {bad_kill}, "
          f"reach problems {bad_reach}, wall {time.time() - t0:.0f}s")
    return 1 if (bad_det or bad_kill or bad_reach) else 0
