"""command line: ./check <ID|selftest|mutants|manifest> [...]"""
import argparse
import os
import sys

from . import boot


def main(argv):
    boot.boot()
    ap = argparse.ArgumentParser(prog="check")
    ap.add_argument("target")
    ap.add_argument("--tier", default=os.environ.get("VERIF_TIER") or "quick",
                    choices=["quick", "thorough"])
    ap.add_argument("--seed", type=int, default=None)
    ap.add_argument("--replay")
    ap.add_argument("--runs", type=int)
    ap.add_argument("--workers", type=int)
    ap.add_argument("--digest-of")
    ap.add_argument("--only")
    ap.add_argument("--keep", action="store_true")
    ap.add_argument("--sigkill-child")
    args = ap.parse_args(argv)
    seed = args.seed
    if seed is None:
        try:
            seed = int(os.environ.get("VERIF_SEED", "0") or 0)
        except ValueError:
            seed = 0
    # heavy third-party imports once, after the lock patch, before any fork
    import construct  # noqa: F401
    import fsspec  # noqa: F401
    import numpy  # noqa: F401
    import xarray  # noqa: F401

    from . import runner

    target = args.target
    if target == "selftest":
        from . import selftest

        sys.exit(selftest.run(seed, args))
    if target == "mutants":
        from . import mutants

        sys.exit(mutants.run(seed, args))
    if target == "manifest":
        from . import manifest

        sys.exit(manifest.write())
    pid = target.upper()
    if pid not in runner.PROPS:
        print(f"unknown target {target}", file=sys.stderr)
        sys.exit(2)
    if args.replay:
        sys.exit(runner.replay(pid, args.replay))
    if args.digest_of:
        idx = [int(x) for x in args.digest_of.split(",") if x]
        sys.exit(runner.digest_of(pid, args.tier, seed, idx))
    sys.exit(runner.run_check(pid, args.tier, seed, n_runs=args.runs, workers=args.workers))
