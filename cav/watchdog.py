"""Wall-clock safety net for calls into the code under test.

The simulator bounds every run by *events* (deterministic).  A loop of the code under test that
spins without touching any seam produces no events; this watchdog turns such a hang into a
``SimAbort`` raised inside the calling thread (``PyThreadState_SetAsyncExc``), which the
property modules report as the bounded-liveness failure.  The limit is far above anything a
legitimate call needs (an open of the largest generated product takes < 3 s), so it can fire
only on a hang.
"""
import _thread
import ctypes
import time

from . import boot
from .sim import SimAbort

LIMIT_S = 45.0
_state = {"deadline": None, "tid": None, "started_pid": None, "fired": 0}


def _loop():
    sleep = boot._ORIG.get("sleep", time.sleep)
    while True:
        sleep(0.25)
        d = _state["deadline"]
        if d is not None and time.monotonic() > d:
            tid = _state["tid"]
            _state["deadline"] = None
            _state["fired"] += 1
            ctypes.pythonapi.PyThreadState_SetAsyncExc(ctypes.c_ulong(tid),
                                                       ctypes.py_object(SimAbort))


def _ensure_thread():
    import os

    if _state["started_pid"] != os.getpid():
        _state["started_pid"] = os.getpid()
        _thread.start_new_thread(_loop, ())


class deadline:
    """with deadline(): <call into the code under test>"""

    def __init__(self, seconds=None):
        self.seconds = LIMIT_S if seconds is None else seconds
        self.outer = None

    def __enter__(self):
        _ensure_thread()
        self.outer = (_state["deadline"], _state["tid"])
        if self.outer[0] is None:          # the outermost call owns the timer
            _state["tid"] = _thread.get_ident()
            _state["deadline"] = time.monotonic() + self.seconds
        return self

    def __exit__(self, *exc):
        if self.outer[0] is None:
            _state["deadline"] = None
            # cancel an exception that was scheduled but not delivered yet
            ctypes.pythonapi.PyThreadState_SetAsyncExc(ctypes.c_ulong(_thread.get_ident()), None)
        return False
