"""``simfs://`` - the simulator's own fsspec filesystem (in-memory, read-only for the code
under test, every request recorded and a scheduling point).

One global namespace ``FILES`` (absolute posix path -> bytes).  A product lives below
``/<world>/<dirs...>/``.  Two spellings reach the same files:
  * ``simfs://<world>/<dirs>``                      (filesystem re-creatable from the URL)
  * ``simfs://<dirs>`` + storage_options={"prefix": "/<world>"}   (needs the options)
"""
import io

import fsspec
from fsspec.spec import AbstractFileSystem

from .sim import SIM

FILES = {}


class SimFile(io.RawIOBase):
    def __init__(self, path, data):
        super().__init__()
        self.path = path
        self.data = data
        self.pos = 0
        self.name = path

    def readable(self):
        return True

    def seekable(self):
        return True

    def seek(self, off, whence=0):
        if whence == 0:
            new = off
        elif whence == 1:
            new = self.pos + off
        else:
            new = len(self.data) + off
        SIM.event("seek", self.path, new)
        self.pos = new
        return self.pos

    def tell(self):
        return self.pos

    def read(self, n=-1):
        if n is None or n < 0:
            n = max(len(self.data) - self.pos, 0)
        SIM.event("read", self.path, self.pos, n)
        SIM.read_request(self.path)
        # the bytes are taken *after* the scheduling point, at the position this handle has now
        out = self.data[self.pos:self.pos + n]
        self.pos += len(out)
        return out

    def readall(self):
        return self.read(-1)

    def readinto(self, b):
        d = self.read(len(b))
        b[:len(d)] = d
        return len(d)

    def close(self):
        if not self.closed and not getattr(self, "_finalizing", False):
            # closing a handle is a file operation like any other: a scheduling point
            SIM.event("close", self.path)
        super().close()

    def __del__(self):
        # a handle that is merely dropped is closed by the garbage collector at a moment the
        # simulator does not own: keep that out of the event log
        self._finalizing = True
        try:
            self.close()
        except Exception:  # noqa: BLE001
            pass


class SimFS(AbstractFileSystem):
    protocol = "simfs"
    cachable = False
    root_marker = "/"

    def __init__(self, prefix="", **kw):
        super().__init__(prefix=prefix, **kw)
        self.prefix = prefix.rstrip("/")

    @classmethod
    def _strip_protocol(cls, path):
        if isinstance(path, list):
            return [cls._strip_protocol(p) for p in path]
        path = str(path)
        if path.startswith("simfs://"):
            path = path[len("simfs://"):]
        path = "/" + path.strip("/")
        return path

    def _abs(self, path):
        return self.prefix + self._strip_protocol(path)

    def _rel(self, abspath):
        return abspath[len(self.prefix):] if self.prefix else abspath

    def info(self, path, **kw):
        p = self._abs(path)
        SIM.event("info", p)
        if p in FILES:
            return {"name": self._rel(p), "size": len(FILES[p]), "type": "file"}
        pre = p.rstrip("/") + "/"
        if any(k.startswith(pre) for k in FILES):
            return {"name": self._rel(p), "size": 0, "type": "directory"}
        raise FileNotFoundError(self._rel(p))

    def ls(self, path, detail=True, **kw):
        p = self._abs(path).rstrip("/")
        SIM.event("ls", p)
        out = {}
        for k in sorted(FILES):
            if k.startswith(p + "/"):
                rest = k[len(p) + 1:]
                if "/" in rest:
                    d = p + "/" + rest.split("/")[0]
                    out[d] = {"name": self._rel(d), "size": 0, "type": "directory"}
                else:
                    out[k] = {"name": self._rel(k), "size": len(FILES[k]), "type": "file"}
        if not out and p in FILES:
            out[p] = {"name": self._rel(p), "size": len(FILES[p]), "type": "file"}
        if not out:
            raise FileNotFoundError(self._rel(p))
        return list(out.values()) if detail else [v["name"] for v in out.values()]

    def _open(self, path, mode="rb", **kw):
        p = self._abs(path)
        if "r" not in mode or "+" in mode:
            SIM.event("open-w-denied", p)
            raise PermissionError("simfs is read-only for the code under test: " + p)
        SIM.event("open", p)
        if p not in FILES:
            raise FileNotFoundError(self._rel(p))
        return SimFile(p, FILES[p])

    def cat_file(self, path, start=None, end=None, **kw):
        p = self._abs(path)
        SIM.event("cat", p, start, end)
        if p not in FILES:
            raise FileNotFoundError(self._rel(p))
        SIM.read_request(p)
        return FILES[p][start:end]

    def _deny(self, *a, **k):
        SIM.event("write-denied", str(a[:1]))
        raise PermissionError("simfs is read-only for the code under test")

    pipe_file = rm_file = _rm = mkdir = makedirs = rmdir = touch = mv = cp_file = _deny


def register():
    fsspec.register_implementation("simfs", SimFS, clobber=True)


def clear(world=None):
    if world is None:
        FILES.clear()
    else:
        for k in [k for k in FILES if k.startswith("/" + world + "/")]:
            del FILES[k]
