"""Oracles shared by the property modules."""
import numpy as np


class Violation:
    """structured oracle failure; ``cls``+``site`` identify it for known-findings matching"""

    def __init__(self, prop, cls, site, details=None):
        self.prop = prop
        self.cls = cls
        self.site = site
        self.details = details or {}

    def to_json(self):
        return {"property": self.prop, "cls": self.cls, "site": self.site,
                "details": _jsonable(self.details)}

    def __repr__(self):
        return f"Violation({self.prop} {self.cls} @ {self.site}: {self.details})"


def _jsonable(x, depth=0):
    if depth > 6:
        return repr(x)[:200]
    if isinstance(x, dict):
        return {str(k): _jsonable(v, depth + 1) for k, v in list(x.items())[:40]}
    if isinstance(x, (list, tuple)):
        return [_jsonable(v, depth + 1) for v in list(x)[:40]]
    if isinstance(x, (str, int, float, bool)) or x is None:
        return x
    if isinstance(x, np.generic):
        return x.item() if x.dtype.kind in "iufb" else repr(x)
    return repr(x)[:300]


def exc_slug(e):
    """stable short description of an exception (type only + first words, no addresses)"""
    return type(e).__name__


def exc_text(e):
    return (type(e).__name__ + ": " + str(e))[:300]


# ---------------------------------------------------------------------------- trees
def image_vars(tree):
    """[(group name, DataArray)] for the data variable of every image group, tree order"""
    out = []
    for name, node in tree["imagery"].children.items():
        if "data" in node.data_vars or "data" in node.variables:
            out.append((name, node["data"]))
    return out


def strip_chunksizes(tree):
    """copy of the tree whose image variables carry no preferred_chunksizes; returns
    (tree, {group: preferred_chunksizes or None})"""
    t = tree.copy(deep=False)
    found = {}
    for node in t.subtree:
        for name, var in node.variables.items():
            pc = var.encoding.get("preferred_chunksizes")
            if pc is not None:
                found[node.path + "/" + name] = dict(pc)
    return t, found


def tree_diff(a, b, max_items=5):
    """[] when the two DataTrees are identical.

    The verdict is ``DataTree.identical`` itself (what "identical" means for a user: same
    nodes, same variables, same coordinate/data split, dims, attrs, values with NaN == NaN)
    plus equality of every variable's declared and loaded dtype.  The walk below is used only
    to *describe* where two trees differ and follows the same (order-insensitive) semantics.
    """
    try:
        same = bool(a.identical(b))
    except Exception as e:  # noqa: BLE001
        return [f"DataTree.identical raised {exc_text(e)}"]
    diffs = []
    pa = sorted(n.path for n in a.subtree)
    pb = sorted(n.path for n in b.subtree)
    if pa != pb:
        diffs.append(f"node paths differ: {pa[:12]} vs {pb[:12]}")
        return diffs
    for na in a.subtree:
        if len(diffs) >= max_items:
            break
        nb = b[na.path] if na.path != "/" else b
        da, db = na.dataset, nb.dataset
        if sorted(da.data_vars) != sorted(db.data_vars):
            diffs.append(f"{na.path}: data variables {list(da.data_vars)} vs {list(db.data_vars)}")
            continue
        if sorted(da.coords) != sorted(db.coords):
            diffs.append(f"{na.path}: coordinates {list(da.coords)} vs {list(db.coords)}")
            continue
        if not _attrs_equal(da.attrs, db.attrs):
            diffs.append(f"{na.path}: attrs differ: {_attr_diff(da.attrs, db.attrs)}")
        for name in da.variables:
            va, vb = da.variables[name], db.variables[name]
            where = f"{na.path}/{name}"
            if va.dims != vb.dims:
                diffs.append(f"{where}: dims {va.dims} vs {vb.dims}")
                continue
            if va.shape != vb.shape:
                diffs.append(f"{where}: shape {va.shape} vs {vb.shape}")
                continue
            if va.dtype != vb.dtype:
                diffs.append(f"DTYPE {where}: declared dtype {va.dtype} vs {vb.dtype}")
                continue
            if not _attrs_equal(va.attrs, vb.attrs):
                diffs.append(f"{where}: attrs differ: {_attr_diff(va.attrs, vb.attrs)}")
            try:
                xa, xb = np.asarray(va.values), np.asarray(vb.values)
            except Exception as e:  # noqa: BLE001
                diffs.append(f"{where}: loading raised {exc_text(e)}")
                continue
            if xa.dtype != xb.dtype:
                diffs.append(f"DTYPE {where}: loaded dtype {xa.dtype} vs {xb.dtype}")
            elif xa.shape != xb.shape:
                diffs.append(f"{where}: loaded shape {xa.shape} vs {xb.shape}")
            elif not values_equal(xa, xb):
                diffs.append(f"{where}: values differ")
    if same:
        # only dtype differences count beyond xarray's own verdict
        return [d for d in diffs if d.startswith("DTYPE ")]
    if not diffs:
        diffs.append("DataTree.identical is False (no difference located by the walk)")
    return diffs


def values_equal(xa, xb):
    if xa.dtype == object:
        if xa.shape != xb.shape:
            return False
        return all(_obj_equal(p, q) for p, q in zip(xa.ravel().tolist(), xb.ravel().tolist()))
    if xa.dtype.kind in "fc":
        return bool(np.array_equal(xa, xb, equal_nan=True))
    if xa.dtype.kind in "mM":
        return bool(np.array_equal(xa.view("i8"), xb.view("i8")))
    return bool(np.array_equal(xa, xb))


def _obj_equal(p, q):
    if isinstance(p, (list, tuple)) and isinstance(q, (list, tuple)):
        return len(p) == len(q) and all(_obj_equal(x, y) for x, y in zip(p, q))
    if isinstance(p, dict) and isinstance(q, dict):
        return list(p) == list(q) and all(_obj_equal(p[k], q[k]) for k in p)
    if isinstance(p, float) and isinstance(q, float) and p != p and q != q:
        return True
    if isinstance(p, np.ndarray) or isinstance(q, np.ndarray):
        p, q = np.asarray(p), np.asarray(q)
        return p.shape == q.shape and values_equal(p, q)
    try:
        return bool(p == q)
    except Exception:  # noqa: BLE001
        return False


def _attrs_equal(a, b):
    from xarray.core.utils import dict_equiv

    try:
        return dict_equiv(a, b)
    except Exception:  # noqa: BLE001
        return False


def _attr_diff(a, b):
    out = []
    for k in list(a) + [k for k in b if k not in a]:
        if k not in a:
            out.append(f"+{k}")
        elif k not in b:
            out.append(f"-{k}")
        elif not _attrs_equal({k: a[k]}, {k: b[k]}):
            out.append(f"{k}: {a[k]!r} vs {b[k]!r}"[:160])
    return out[:4]


# ---------------------------------------------------------------------------- pixels
def bits_of(values, level):
    """loaded image values -> the truth representation of synth (bit patterns)"""
    v = np.ascontiguousarray(values)
    if v.dtype.byteorder not in ("=", "|"):
        # a non-native byte order of the in-memory array is a representation detail: the values
        # (and their bit patterns once brought to native order) are what is compared
        v = v.astype(v.dtype.newbyteorder("="))
    if level == "1.1":
        if v.dtype != np.dtype("complex64"):
            return None
        return v.view(np.float32).view(np.uint32).reshape(v.shape + (2,))
    if v.dtype != np.dtype("uint16"):
        return None
    return v


def first_mismatch(got_bits, truth):
    bad = np.argwhere(got_bits != truth)
    if bad.size == 0:
        return None
    idx = tuple(int(i) for i in bad[0])
    return {"index": idx, "got": hex(int(got_bits[idx])), "want": hex(int(truth[idx])),
            "n_bad": int(len(bad))}


def pattern_class(word, level):
    """classification of a sample bit pattern for stable violation sites"""
    if level != "1.1":
        return {0: "zero", 65535: "max"}.get(int(word), "int")
    w = int(word)
    exp = (w >> 23) & 0xFF
    frac = w & 0x7FFFFF
    if exp == 0xFF:
        return "nan" if frac else "inf"
    if w == 0x80000000:
        return "negzero"
    if exp == 0 and frac:
        return "denormal"
    return "finite"


def scribble(tree):
    """what a caller may legitimately do with a tree it was given: change the in-memory values
    of metadata variables / coordinates and the attribute dictionaries IN PLACE.  Later opens must
    not be affected (results must not share mutable state).  Returns the number of objects
    modified.  Lazy (not yet loaded) image data is left alone."""
    n = 0
    for node in tree.subtree:
        ds = node.to_dataset(inherit=False) if hasattr(node, "to_dataset") else node.ds
        for name, var in ds.variables.items():
            data = getattr(var, "_data", None)
            arr = data if isinstance(data, np.ndarray) else getattr(data, "array", None)
            if not isinstance(arr, np.ndarray) or arr.size == 0 or not arr.flags.writeable:
                continue
            try:
                k = arr.dtype.kind
                if k in "iuf":
                    arr[...] = arr + 1
                elif k == "c":
                    arr[...] = arr + (1 + 1j)
                elif k == "b":
                    arr[...] = ~arr
                elif k == "M":
                    arr[...] = arr + np.timedelta64(1, "h").astype("timedelta64[ns]")
                elif k == "m":
                    arr[...] = arr + np.timedelta64(1, "s").astype(arr.dtype)
                else:
                    continue
                n += 1
            except Exception:  # noqa: BLE001 - e.g. overflow-free cast refused: not modifiable
                continue
            try:
                var.attrs["scribbled-by-caller"] = 1
                for key, val in list(var.attrs.items()):
                    if isinstance(val, list):
                        val.append("scribble")
            except Exception:  # noqa: BLE001
                pass
        try:
            node.attrs["scribbled-by-caller"] = 1
            for key, val in list(node.attrs.items()):
                if isinstance(val, list):
                    val.append("scribble")
                    n += 1
                elif isinstance(val, dict):
                    val["scribble"] = 1
                    n += 1
        except Exception:  # noqa: BLE001
            pass
    return n
