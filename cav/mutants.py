"""./check mutants [--only NAME-SUBSTRING]: sensitivity self-test.

Every /verif/mutants/*.patch and every /verif/seeded/*/patch.diff is applied to a scratch copy
of the code under test; the repository's own tests must still pass (otherwise the mutant is
reported as killed-by-tests and not counted) and the property's quick check, pointed at the
copy through VERIF_REPO, must report a VIOLATION (``expect: violation``) or stay quiet
(``expect: quiet`` - benign controls).  Copies live on /dev/shm and are removed at once.
"""
import concurrent.futures
import glob
import json
import os
import re
import shutil
import subprocess
import sys
import time

from . import boot


def collect(only=None):
    out = []
    for path in sorted(glob.glob(os.path.join(boot.VERIF_ROOT, "mutants", "*.patch"))):
        head = open(path).read(600)
        prop = re.search(r"# property: (\S+)", head).group(1)
        expect = re.search(r"# expect: (\S+)", head).group(1)
        out.append({"name": os.path.basename(path)[:-6], "patch": path, "property": prop,
                    "expect": expect, "kind": "mutant"})
    for meta in sorted(glob.glob(os.path.join(boot.VERIF_ROOT, "seeded", "*", "meta.json"))):
        d = os.path.dirname(meta)
        m = json.load(open(meta))
        out.append({"name": "seeded-" + os.path.basename(d), "patch": os.path.join(d, "patch.diff"),
                    "property": m["property"], "expect": m.get("expect", "violation"),
                    "kind": "seeded", "also": m.get("also_detected_by", [])})
    if only:
        out = [m for m in out if only in m["name"]]
    return out


def run_one(m, seed, with_tests, workers):
    t0 = time.time()
    scratch = "/dev/shm/cav-mut-%d-%s" % (os.getpid(), m["name"])
    shutil.rmtree(scratch, ignore_errors=True)
    os.makedirs(scratch)
    res = dict(m)
    try:
        repo = scratch + "/repo"
        subprocess.run(["rsync", "-a", "--exclude", ".git", "--exclude", "__pycache__",
                        boot.REPO + "/", repo + "/"], check=True)
        p = subprocess.run(["patch", "-p1", "-s", "-i", m["patch"]], cwd=repo,
                           capture_output=True, text=True)
        if p.returncode != 0:
            res.update(status="patch-does-not-apply", detail=(p.stdout + p.stderr)[-300:])
            return res
        if with_tests:
            t = subprocess.run(["/venv/bin/python", "-m", "pytest", "-q", "-p", "no:cacheprovider",
                                "--timeout=900", "--continue-on-collection-errors", "-x", "-q",
                                # concurrent pytest sessions of one user clean up each other's
                                # /tmp/pytest-of-<user> directories: keep this one's to itself
                                "--basetemp=" + scratch + "/pytest-tmp",
                                "--deselect", "ceos_alos2/tests/test_xarray.py::test_to_dataset",
                                "--deselect", "ceos_alos2/tests/test_xarray.py::test_to_datatree",
                                "--deselect",
                                "ceos_alos2/tests/test_testing.py::test_diff_array[array-fs-protocol]"],
                               cwd=repo, capture_output=True, text=True, timeout=1800)
            tail = t.stdout.strip().splitlines()[-1] if t.stdout.strip() else ""
            res["tests"] = tail
            if t.returncode != 0:
                res.update(status="killed-by-tests")
                return res
        env = dict(os.environ, VERIF_REPO=repo, VERIF_EVIDENCE_DIR=scratch + "/evidence",
                   VERIF_REPLAY_DIR=scratch + "/replays", VERIF_SEED=str(seed))
        c = subprocess.run([os.path.join(boot.VERIF_ROOT, "check"), m["property"], "--tier",
                            "quick", "--workers", str(workers)], env=env, capture_output=True,
                           text=True, timeout=3600)
        viol = [ln for ln in c.stdout.splitlines() if ln.lstrip().startswith("violation class=")]
        res["exit"] = c.returncode
        res["classes"] = sorted({re.search(r"class=(\S+) site=(\S+)", v).group(0) for v in viol})[:6]
        got = "violation" if (c.returncode == 1 and "VIOLATION property=" in c.stdout) else (
            "quiet" if c.returncode == 0 else "harness-error")
        res["got"] = got
        res["status"] = "ok" if got == m["expect"] else "MISMATCH"
        if got == "harness-error":
            res["detail"] = (c.stdout[-600:] + c.stderr[-600:])
        return res
    except Exception as e:  # noqa: BLE001
        res.update(status="error", detail=repr(e))
        return res
    finally:
        res["wall"] = round(time.time() - t0, 1)
        shutil.rmtree(scratch, ignore_errors=True)


def run(seed, args):
    ms = collect(args.only)
    if not ms:
        print("no mutants found")
        return 2
    par = 4
    workers = 4
    results = []
    with concurrent.futures.ThreadPoolExecutor(par) as ex:
        # benign controls need not pass the repository's tests to show that a check stays quiet
        futs = [ex.submit(run_one, m, seed, m["expect"] != "quiet", workers) for m in ms]
        for f in concurrent.futures.as_completed(futs):
            r = f.result()
            results.append(r)
            print(f"{r['status']:>20}  {r['name']:<38} {r['property']} expect={r['expect']:<9} "
                  f"got={r.get('got', '-'):<13} {r.get('wall', 0):6.1f}s "
                  f"{' | '.join(r.get('classes', []))[:150]}{r.get('detail', '')[:300]}", flush=True)
    out_path = os.path.join(boot.VERIF_ROOT, "mutants", "RESULTS.json")
    if args.only and os.path.exists(out_path):
        # a partial run updates its own entries and keeps the others
        try:
            old = {r["name"]: r for r in json.load(open(out_path))}
        except Exception:  # noqa: BLE001
            old = {}
        old.update({r["name"]: r for r in results})
        merged = list(old.values())
    else:
        merged = list(results)
    merged.sort(key=lambda r: r["name"])
    results.sort(key=lambda r: r["name"])
    with open(out_path, "w") as f:
        json.dump(merged, f, indent=1)
        f.write("\n")
    bad = [r for r in results if r["status"] in ("MISMATCH", "error", "patch-does-not-apply")]
    counted = [r for r in results if r["status"] in ("ok", "MISMATCH")]
    print(f"mutants: {len(results)} total, {len(counted)} counted, "
          f"{sum(r['status'] == 'ok' for r in results)} as expected, {len(bad)} problems, "
          f"{sum(r['status'] == 'killed-by-tests' for r in results)} killed by the repo tests")
    return 1 if bad else 0
