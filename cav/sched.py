"""Baton-passing scheduler: real threads, exactly one runs, the simulator decides who.

Actors park only at simulator-owned points: every seam event (``SIM.event``), every
contended cooperative-lock acquire, explicit suspend/wait, and - optionally - chosen
``line`` trace events inside frames of the code under test.  Every choice is drawn from the
run's PRNG (or taken from a recorded script), so one seed is one exactly repeatable
interleaving.
"""
import _thread
import sys

from . import boot
from .sim import SIM, SimAbort


class HarnessHang(RuntimeError):
    pass


class Sched:
    def __init__(self, rng=None, script=None, mode="random", switch_p=1.0, max_steps=20000,
                 pct_depth=0, est_steps=300, line_points=None, trace_prefix=None):
        self.rng = rng
        self.script = list(script) if script is not None else None
        self.script_pos = 0
        self.mode = mode
        self.switch_p = switch_p
        self.max_steps = max_steps
        self.order = []
        self.fn = {}
        self.gate = {}
        self.tids = {}
        self.done = set()
        self.blocked = {}
        self.suspended = set()
        self.waiting = {}
        self.cur = None
        self.trace = []          # chosen actor at every decision
        self.decisions = []      # (runnable actors, chosen) at every decision (systematic search)
        self.only_kinds = None   # if set: only events of these kinds are decision points
        self.res = {}
        self.err = {}
        self.steps = 0
        self.deadlock = False
        self.budget = False
        self.aborting = False
        self.main = boot.RAW_ALLOC()
        self.main.acquire()
        self.outer = False       # the per-run envelope scheduler (see runner.execute_plan)
        self.adopted = set()     # actors that are threads started by the code under test
        self.timed = {}          # actor -> virtual deadline of a timed wait
        self.timed_out = set()
        self.step_cost = 0.0     # virtual seconds that pass per scheduler step (0: sleeps outlast all)
        self.prev = None         # enclosing scheduler (nested runs)
        self.thread_count = 0
        self.contention = 0      # probe: an actor found a lock held and had to wait
        self.holders = {}        # lock id -> actor (for reports)
        # PCT
        self.prio = {}
        self.change_points = []
        if mode == "pct" and rng is not None:
            self.change_points = sorted(rng.randrange(max(est_steps, 1))
                                        for _ in range(max(pct_depth - 1, 0)))
        self.pct_depth = pct_depth
        # line-level pre-emption
        self.line_points = set(line_points) if line_points else None
        self.line_count = 0
        self.trace_prefix = trace_prefix

    # ------------------------------------------------------------------ actors
    def adopt_thread(self, thread):
        """a threading.Thread started by the code under test inside a simulated run becomes an
        actor of this scheduler (its interleaving is decided here, not by the OS)"""
        self.thread_count += 1
        name = "%s.t%d" % (self.cur or "x", self.thread_count)
        thread._sim_actor = name
        thread._sim_sched = self
        thread._started.set()
        self.adopted.add(name)
        SIM.log.append((len(SIM.log), self.cur, "thread-start", name))
        SIM.probe("threads_adopted")
        self.spawn(name, thread.run)
        self.yield_point()

    def spawn(self, name, fn):
        g = boot.RAW_ALLOC()
        g.acquire()
        self.gate[name] = g
        self.order.append(name)
        self.fn[name] = fn
        if self.mode == "pct" and self.rng is not None:
            self.prio[name] = self.pct_depth + self.rng.random()

        def run():
            g.acquire()
            try:
                if self.aborting:
                    raise SimAbort("aborted before start")
                if self.line_points is not None:
                    sys.settrace(self._global_trace)
                try:
                    self.res[name] = fn()
                finally:
                    if self.line_points is not None:
                        sys.settrace(None)
            except BaseException as e:  # noqa: BLE001 - actors may die of SimKill
                self.err[name] = e
            self.done.add(name)
            self._next(name, finished=True)

        self.tids[_thread.start_new_thread(run, ())] = name

    def is_actor_thread(self):
        return _thread.get_ident() in self.tids

    # ------------------------------------------------------------------ scheduling core
    def _is_runnable(self, a):
        if a in self.done or a in self.suspended:
            return False
        if a in self.timed_out:
            return True
        lk = self.blocked.get(a)
        if lk is not None and lk.locked():
            return False
        pred = self.waiting.get(a)
        if pred is not None and not pred():
            return False
        return True

    def _runnable(self):
        return [a for a in self.order if self._is_runnable(a)]

    def _choose(self, r, me):
        if self.script is not None:
            want = self.script[self.script_pos] if self.script_pos < len(self.script) else None
            self.script_pos += 1
            if want is not None and want in r:
                return want
            return me if me in r else r[0]
        if self.mode == "pct":
            while self.change_points and self.steps >= self.change_points[0]:
                self.change_points.pop(0)
                if me is not None:
                    self.prio[me] = len(self.change_points) - 1.0 - self.steps * 1e-9
            return max(r, key=lambda a: self.prio[a])
        if me in r and self.switch_p < 1.0 and self.rng.random() >= self.switch_p:
            return me
        return r[self.rng.randrange(len(r))]

    def _wake_main(self):
        self.cur = None
        self.main.release()

    def _next(self, me, finished=False, force_other=False):
        if self.aborting:
            if finished:
                rest = [a for a in self.order if a not in self.done]
                if not rest:
                    self._wake_main()
                else:
                    nxt = rest[0]
                    self.cur = nxt
                    SIM.actor = nxt
                    self.gate[nxt].release()
            return
        self.steps += 1
        if self.steps > self.max_steps:
            self.budget = True
            self._abort(me, finished)
            return
        if self.step_cost and self.timed:
            # every scheduler step costs virtual time: a sleeper wakes up while the others are
            # still at work (with step_cost = 0 a sleep outlasts everything the others can do)
            SIM.clock += self.step_cost
            for a in self.order:
                if a in self.timed and a not in self.done and self.timed[a] <= SIM.clock:
                    self.timed_out.add(a)
        r = self._runnable()
        if not r:
            if len(self.done) == len(self.order):
                self._wake_main()
                return
            waiting_timed = [a for a in self.order if a in self.timed and a not in self.done]
            if waiting_timed:
                # nothing can run: virtual time jumps to the earliest pending timeout
                a = min(waiting_timed, key=lambda x: (self.timed[x], self.order.index(x)))
                SIM.clock = max(SIM.clock, self.timed[a])
                self.timed_out.add(a)
                r = [a]
            elif all(a in self.done or a in self.adopted for a in self.order):
                # only threads of the code under test are left and all of them are blocked for
                # good (idle pool workers): the run is over, they are torn down
                self._abort(me, finished)
                return
            else:
                self.deadlock = True
                self._abort(me, finished)
                return
        if force_other:
            others = [a for a in r if a != me]
            if others:
                r = others
        nxt = self._choose(r, None if finished else me)
        self.trace.append(nxt)
        self.decisions.append((tuple(r), nxt))
        if nxt == me and not finished:
            return
        self.cur = nxt
        SIM.actor = nxt
        self.gate[nxt].release()
        if not finished:
            self.gate[me].acquire()
            if self.aborting:
                raise SimAbort("run aborted")

    def _abort(self, me, finished):
        self.aborting = True
        if finished:
            self._next(me, finished=True)
        else:
            raise SimAbort("deadlock" if self.deadlock else "step budget")

    def force_abort(self):
        self.budget = True
        self.aborting = True
        raise SimAbort("event budget exceeded")

    # ------------------------------------------------------------------ API used by seams
    def yield_point(self):
        me = self.cur
        if me is None or self.aborting:
            return
        self._next(me)

    def block_on(self, lock, deadline=None):
        """park until the lock looks free (returns True: retry) or, for a timed wait, until virtual
        time reaches the deadline because nothing else could run (returns False)"""
        me = self.cur
        if self.aborting:
            raise SimAbort("run aborted")
        self.contention += 1
        SIM.log.append((len(SIM.log), me, "blocked", "lock"))
        self.blocked[me] = lock
        if deadline is not None:
            self.timed[me] = deadline
        try:
            self._next(me)
        finally:
            self.blocked.pop(me, None)
            self.timed.pop(me, None)
        if me in self.timed_out:
            self.timed_out.discard(me)
            return False
        return True

    def sleep(self, seconds):
        """time.sleep of an actor: no real time passes; the actor continues once nothing else can
        run (virtual time jumps) - or immediately if it is alone"""
        me = self.cur
        if me is None or self.aborting:
            return
        SIM.log.append((len(SIM.log), me, "sleep", round(float(seconds), 6)))
        lk = boot.RAW_ALLOC()
        lk.acquire()
        self.blocked[me] = lk
        self.timed[me] = SIM.clock + max(float(seconds), 0.0)
        try:
            self._next(me)
        finally:
            self.blocked.pop(me, None)
            self.timed.pop(me, None)
            self.timed_out.discard(me)
        if SIM.clock > SIM.max_clock:
            raise SimAbort("simulated time budget exceeded")

    def note_acquire(self, lock):
        pass

    def suspend_self(self):
        me = self.cur
        self.suspended.add(me)
        self._next(me)

    def resume(self, name):
        self.suspended.discard(name)

    def wait_until(self, pred):
        me = self.cur
        self.waiting[me] = pred
        try:
            while not pred():
                self._next(me)
        finally:
            self.waiting.pop(me, None)

    # ------------------------------------------------------------------ line tracing
    def _global_trace(self, frame, event, arg):
        if frame.f_code.co_filename.startswith(self.trace_prefix):
            return self._local_trace
        return None

    def _local_trace(self, frame, event, arg):
        if event == "line":
            self.line_count += 1
            if self.line_count in self.line_points and self.cur is not None \
                    and not self.aborting:
                me = self.cur
                SIM.log.append((len(SIM.log), me, "preempt", frame.f_code.co_name))
                SIM.probe("line_preemptions")
                self._next(me, force_other=True)
        return self._local_trace

    # ------------------------------------------------------------------ driver
    def run(self, wall_timeout=60.0):
        if not self.order:
            return
        self.prev = boot.STATE["sched"]
        prev_actor = SIM.actor
        boot.STATE["sched"] = self
        try:
            r = self._runnable()
            first = self._choose(r, None)
            self.trace.append(first)
            self.decisions.append((tuple(r), first))
            self.cur = first
            SIM.actor = first
            self.gate[first].release()
            if not self.main.acquire(True, wall_timeout):
                raise HarnessHang("scheduler did not finish within %.0fs wall" % wall_timeout)
        finally:
            boot.STATE["sched"] = self.prev
            SIM.actor = prev_actor if self.prev is not None else "main"
